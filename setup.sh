#!/bin/sh
# Build the whole framework offline from files on disk (run once after a fresh restore).
set -e
cd "$(dirname "$0")"
export CARGO_NET_OFFLINE=true
python3 gen/catalog.py crates/shapes/src/lib.rs
cd crates
CARGO_TARGET_DIR=target cargo build --offline -p engines -p ioeng 2>&1 | tail -3
if [ "${VERIF_SETUP_THOROUGH:-1}" = "1" ]; then
  CARGO_TARGET_DIR=target-thorough cargo build --offline -p engines --features thorough -p ioeng 2>&1 | tail -3
fi
echo "setup done"
