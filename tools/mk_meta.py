#!/usr/bin/env python3
"""usage: mk_meta.py <id> <property> <round-text> <summary> <needs> <file> <caught_by> <checks_run>"""
import json, sys, os
i, p, rnd, summ, needs, f, cb, cr = sys.argv[1:9]
base = os.environ.get("SEED_BASE", "e0a9d89")
origin = f"written by an independent sub-agent ({rnd}: given only the property text, the one-line summaries of the earlier changes and a scratch worktree of /repo at {base}; asked for a different site or mechanism, rare and plausible)"
conf = "re-run by me in the scratch worktree (tools/confirm_seeded.sh, log in confirm.log): with the change the whole existing suite passes and the demonstration fails; with the patch reversed the demonstration passes"
json.dump({"property": p, "summary": summ, "needs": needs, "file": f, "origin": origin, "confirmed": conf, "caught_by": cb, "checks_run": cr}, open(f"/verif/seeded/{i}/meta.json", "w"), indent=1)
