#!/bin/sh
# usage: confirm_seeded.sh <worktree> <outdir> : re-verify an agent's claim in its scratch worktree
# (resets the library files to HEAD, applies patch.diff; never uses git stash, which is shared between worktrees)
WT=$1; OUT=$2
cd $WT || exit 2
export CARGO_TARGET_DIR=$WT/target
FILES=$(grep '^+++ b/' $OUT/patch.diff | sed 's|^+++ b/||')
echo "patched files: $FILES"
git checkout -- $FILES
git apply $OUT/patch.diff || { echo "PATCH DOES NOT APPLY"; exit 1; }
echo "--- with change: whole suite"
cargo test --workspace --no-fail-fast --offline 2>&1 | grep -E "^test .*FAILED|^test result|^error" | sort | uniq -c | head -20
echo "--- without change: demo only"
git apply -R $OUT/patch.diff
{ cargo test --workspace --no-fail-fast --offline seeded_demo 2>&1; [ -f io/tests/seeded_demo.rs ] && cargo test -p flatty-io --test seeded_demo --offline 2>&1; [ -f portable/tests/seeded_demo.rs ] && cargo test -p flatty-portable --test seeded_demo --offline 2>&1; } | grep -E "^test .*(FAILED|ok)|^error" | sort | uniq -c | head -20
git apply $OUT/patch.diff
git status --short | head
