#!/bin/sh
# usage: ingest5.sh <tag> <seeded-id> : after confirm, store deliverables and remove the scratch worktree
T=$1; ID=$2
mkdir -p /verif/seeded/$ID
cp /tmp/out${R:-5}_$T/patch.diff /tmp/out${R:-5}_$T/demo.rs /tmp/out${R:-5}_$T/demo_howto.txt /tmp/out${R:-5}_$T/notes.txt /verif/seeded/$ID/
cp /tmp/confirm${R:-5}_$T.log /verif/seeded/$ID/confirm.log
git -C /repo worktree remove --force /tmp/wt${R:-5}_$T
rm -rf /tmp/out${R:-5}_$T /tmp/wt${R:-5}_$T /tmp/prompt${R:-5}_$T.txt
ls /verif/seeded/$ID
