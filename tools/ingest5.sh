#!/bin/sh
# usage: ingest5.sh <tag> <seeded-id> : after confirm, store deliverables and remove the scratch worktree
T=$1; ID=$2
mkdir -p /verif/seeded/$ID
cp /tmp/out5_$T/patch.diff /tmp/out5_$T/demo.rs /tmp/out5_$T/demo_howto.txt /tmp/out5_$T/notes.txt /verif/seeded/$ID/
cp /tmp/confirm5_$T.log /verif/seeded/$ID/confirm.log
git -C /repo worktree remove --force /tmp/wt5_$T
rm -rf /tmp/out5_$T /tmp/wt5_$T /tmp/prompt5_$T.txt
ls /verif/seeded/$ID
