#!/bin/sh
# usage: tools/try_benign.sh <name> [props...] : a behaviour-preserving change must NOT raise any alarm
set -u
N=$1; shift
PROPS=${*:-C01 C02 C03 C04 C05 C06 C07 C08 C09 C10 C11 C12 C13 C14 C15 C16 C17 C18 C19 C20}
cd /verif
BK=$(mktemp -d /verif/.seeded_backup.XXXX); cp -r evidence replays $BK/ 2>/dev/null
DONE=0
cleanup() { [ $DONE = 1 ] && return; DONE=1; git -C /repo checkout -- . ; rm -rf /verif/evidence /verif/replays; mv $BK/evidence $BK/replays /verif/ 2>/dev/null; rmdir $BK; echo "[reverted]"; }
trap cleanup EXIT
trap 'cleanup; exit 130' INT TERM
git -C /repo diff --quiet || { echo "/repo is dirty"; exit 2; }
git -C /repo apply "/verif/benign/$N.diff" || exit 2
( cd /repo && cargo test --workspace --no-fail-fast --offline 2>&1 | grep -E "^test result|FAILED" | sort | uniq -c | grep -v " 0 passed" )
ALARMS=""
for p in $PROPS; do
  out=$(./check $p 2>&1); rc=$?
  if [ $rc -ne 0 ]; then ALARMS="$ALARMS $p"; echo "== $p exit $rc"; echo "$out" | grep -A1 "^VIOLATION\|MACHINERY" | head -4 | cut -c1-300; fi
done
echo "ALARMS:$ALARMS"
