#!/usr/bin/env python3
"""usage: mk_prompt.py <round> <tag> <property-id>  -> writes /tmp/prompt<round>_<tag>.txt and creates the scratch worktree
The prompt contains ONLY the property text, the worktree path and the one-line summaries of the changes already tried
(no information about the checks in /verif)."""
import json, sys, os, glob, subprocess
rnd, tag, pid = sys.argv[1], sys.argv[2], sys.argv[3]
wt, out = f"/tmp/wt{rnd}_{tag}", f"/tmp/out{rnd}_{tag}"
prop = next(json.loads(l) for l in open("/verif/properties.jsonl") if json.loads(l)["id"] == pid)
tried = []
for m in sorted(glob.glob("/verif/seeded/*/meta.json")):
    j = json.load(open(m)); tried.append(f" - [{j['property']}] {j['summary']} ({j['file']})")
HINT = {
 "C07": "io/src/blocking/*.rs, io/src/common.rs (IoBuffer), io/src/lib.rs", "C08": "io/src/async_/*.rs, io/src/common.rs", "C09": "io/src/blocking/*.rs, io/src/async_/*.rs, io/src/common.rs",
 "C10": "io/src/common.rs, io/src/blocking/recv.rs, io/src/async_/recv.rs",
}
files = HINT.get(pid, "base/src/traits.rs, base/src/utils/*.rs, base/src/emplacer.rs, base/src/wrap.rs, base/src/bytes.rs, containers/src/{vec,string,flex}.rs, portable/src/*.rs, macros/src/items/*.rs")
extra = (" " + os.environ["PROMPT_EXTRA"]) if os.environ.get("PROMPT_EXTRA") else ""
os.makedirs(out, exist_ok=True)
if not os.path.isdir(wt):
    subprocess.check_call(["git", "-C", "/repo", "worktree", "add", "--detach", wt, "HEAD"], stdout=subprocess.DEVNULL)
txt = f"""You are working in a scratch git worktree of the Rust library "flatty" (flat zero-copy message types: FlatVec, FlexVec, FlatString, portable ints, #[flat] proc macro in macros/, traits in base/, containers in containers/, blocking/async framed IO in io/) at {wt} . The machine is OFFLINE. Build/test with: `cd {wt} && CARGO_TARGET_DIR={wt}/target cargo test --workspace --no-fail-fast --offline` (about 30-60 s). Work ONLY inside {wt} and {out}. Do not look at or touch /repo, /verif or any other directory. Do not commit anything. Do NOT use `git stash` (the stash is shared with other worktrees): to test the original code use `git apply -R <patch>` / `git apply <patch>`.

Here is a semantic property the library is supposed to satisfy:

{pid} — {prop['title']}
Statement: {prop['statement']}
Quantified over: {prop['quantifier']['text']}

YOUR TASK: make a small, realistic change (the kind of slip a maintainer could make while refactoring: an off-by-one, a wrong rounding, an operation order swapped, a stale value reused, a check dropped or inverted for one corner case, a cursor advanced by the wrong amount in one branch, a bound relaxed, two places that state the same fact drifting apart ...) to the library SOURCE — candidates: {files} — NOT the tests — that BREAKS this property, while (a) the whole workspace still compiles and (b) the ENTIRE existing test suite still passes (run it; for IO changes several times). The breakage must need something specific to manifest (a particular input / type shape / buffer length / multi-step sequence / chunking / Pending placement / error placement / two cooperating sites that each look fine alone), NOT something ordinary use would expose at once. Prefer something RARE and SUBTLE: a reviewer reading the diff should find it plausible.{extra}

The following changes have ALREADY been tried by others; do not repeat any of them or a trivial variant (same site and same mechanism). Find a different site or a different mechanism:
{chr(10).join(tried)}

Then write a DEMONSTRATION: a self-contained Rust test file at {wt}/tests/src/seeded_demo.rs (add `mod seeded_demo;` to {wt}/tests/src/lib.rs) using only the public API (flatty::{{flat, FlatVec, FlexVec, FlatString, AlignedBytes, prelude::*, ...}}; for IO the flatty-io crate is a dev-dependency candidate: if the tests crate does not depend on it, put the demo under {wt}/io/tests/seeded_demo.rs instead). It must FAIL with your change and PASS on the original code (verify both).

DELIVERABLES in {out}/ :
 1. patch.diff — `git diff` restricted to the LIBRARY change only (not the demo, not the `mod seeded_demo;` line), so that `git apply patch.diff` on a clean checkout reproduces your change.
 2. demo.rs — a copy of the demonstration test, plus demo_howto.txt saying exactly where it goes and the command to run it.
 3. notes.txt — 5-10 lines: what was changed, which clause of the property it breaks, what exactly is needed for it to manifest, and what you observed (suite passes with the change: yes/no; demo fails with change: yes/no; demo passes without: yes/no).

Leave the worktree with your change applied and the demo in place. Report back a short summary.
"""
open(f"/tmp/prompt{rnd}_{tag}.txt", "w").write(txt)
print(f"/tmp/prompt{rnd}_{tag}.txt", len(txt))
