#!/usr/bin/env python3
"""usage: mk_audit.py <tag> <prop> [<prop>...] : audit prompt (find a violation in the UNMODIFIED tree) + scratch worktree"""
import json, sys, os, subprocess
tag, pids = sys.argv[1], sys.argv[2:]
wt, out = f"/tmp/wta_{tag}", f"/tmp/outa_{tag}"
props = [json.loads(l) for l in open("/verif/properties.jsonl")]
props = [p for p in props if p["id"] in pids]
os.makedirs(out, exist_ok=True)
if not os.path.isdir(wt):
    subprocess.check_call(["git", "-C", "/repo", "worktree", "add", "--detach", wt, "HEAD"], stdout=subprocess.DEVNULL)
ptxt = "\n\n".join(f"{p['id']} — {p['title']}\nStatement: {p['statement']}\nQuantified over: {p['quantifier']['text']}" for p in props)
txt = f"""You are working in a scratch git worktree of the Rust library "flatty" (flat zero-copy message types: FlatVec, FlexVec, FlatString, portable ints, #[flat] proc macro in macros/, traits in base/, containers in containers/, blocking/async framed IO in io/) at {wt} . The machine is OFFLINE. Build/test with: `cd {wt} && CARGO_TARGET_DIR={wt}/target cargo test --workspace --no-fail-fast --offline` (about 30-60 s). Work ONLY inside {wt} and {out}. Do not look at or touch /repo, /verif or any other directory. Do not commit anything, do not use `git stash`, and DO NOT MODIFY THE LIBRARY SOURCE.

This is an AUDIT. The library is claimed to satisfy the properties below. Your task: find a concrete counterexample in the code AS IT IS — an input, a type definition, a buffer length/alignment, an operation sequence, a chunking / Pending / fault script — for which a property is violated. Read the implementation closely (base/src/traits.rs, base/src/utils/*.rs, base/src/emplacer.rs, containers/src/*.rs, portable/src/*.rs, macros/src/items/*.rs, io/src/**); think about corner cases the authors may have missed: zero-sized types, alignment larger than size, lengths not a multiple of the alignment, capacities above the length type's maximum, values at the maximum of a length/offset type, nested unsized types inside unsized types, enums without a unit variant, failing emplacers, buffers that are exactly full, the two documented FlexVec chain forms, retained guards, errors at message boundaries, Interrupted/WouldBlock, spurious wake-ups.

For every suspected violation write a small self-contained Rust test using only the public API that FAILS (or panics / hangs with a bounded loop) on the unmodified code and states in a comment which clause of which property it contradicts: put them in {wt}/tests/src/audit_demo.rs (add `mod audit_demo;` to {wt}/tests/src/lib.rs), or for IO in {wt}/io/tests/audit_demo.rs. RUN them and keep only those that really fail. Be careful to distinguish a real violation from behaviour the property leaves unspecified (read the property text literally; padding bytes, error positions outside the stated clauses and the choice between equally acceptable error kinds are unspecified).

The following behaviours are ALREADY KNOWN and must not be reported again: (0) anything that needs a user-written #[repr(align(..))] / #[repr(packed)] next to #[flat], tag_type = "i8", a u128 length type, a zero-sized MESSAGE type in the IO layer, or dropping a partially polled async send future; the portable image of a FlexVec after in-place shrinking of a sealed item (capacity is representation); error positions that point at the start of the offending tag / UTF-8 sequence rather than at the individual wrong byte; (1) a failed assign_in_place may leave the target changed (reset to empty / first fields already overwritten) and, when the new variant's last field is itself an unsized enum/struct that fails its own minimum-size check, even invalid; (2) #[flat(portable = true)] is accepted on enums with a u16/u32 tag, and a sized portable enum leaves unused payload bytes undefined.

DELIVERABLES in {out}/ : findings.txt — for each finding: property and clause, the exact counterexample, what the code does, what the property demands, and how sure you are; audit_demo.rs — copy of the test file; or, if after a thorough search you find nothing, findings.txt saying so and listing what you examined (at least 10 concrete scenarios you tried, with their outcome). Report back a short summary.

THE PROPERTIES TO AUDIT:

{ptxt}
"""
open(f"/tmp/prompta_{tag}.txt", "w").write(txt)
print(f"/tmp/prompta_{tag}.txt", len(txt))
