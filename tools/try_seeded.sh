#!/bin/sh
# usage: tools/try_seeded.sh <seeded-id> [tier] [props...]
# Applies seeded/<id>/patch.diff to /repo, runs the repo suite and the checks, reverts, prints a summary.
set -u
ID=$1; TIER=${2:-quick}; shift; shift 2>/dev/null || true
PROPS=${*:-C01 C02 C03 C04 C05 C06 C07 C08 C09 C10 C11 C12 C13 C14 C15 C16 C17 C18 C19 C20}
cd /verif
# evidence/ and replays/ describe the UNCHANGED tree: keep them out of the way while a seeded change is tried
BK=$(mktemp -d /verif/.seeded_backup.XXXX); cp -r evidence replays $BK/ 2>/dev/null
DONE=0
cleanup() { [ $DONE = 1 ] && return; DONE=1; git -C /repo checkout -- . ; rm -rf /verif/evidence /verif/replays; mv $BK/evidence $BK/replays /verif/ 2>/dev/null; rmdir $BK; echo "[reverted /repo, restored evidence/ and replays/]"; }
trap cleanup EXIT
trap 'cleanup; exit 130' INT TERM
git -C /repo diff --quiet || { echo "/repo is dirty"; exit 2; }
git -C /repo apply "/verif/seeded/$ID/patch.diff" || { echo "patch does not apply"; exit 2; }
echo "== repo suite with the change"
( cd /repo && cargo test --workspace --no-fail-fast --offline 2>&1 | grep -E "^test result|FAILED|failed|^error" | sort | uniq -c )
CAUGHT=""
for p in $PROPS; do
  out=$(./check $p --tier $TIER 2>&1); rc=$?
  if [ $rc -eq 1 ]; then CAUGHT="$CAUGHT $p"; echo "== $p: VIOLATION"; echo "$out" | grep -A1 "^VIOLATION" | head -4 | cut -c1-400
  elif [ $rc -ne 0 ]; then echo "== $p: exit $rc"; echo "$out" | tail -3 | cut -c1-300; fi
done
echo "CAUGHT-BY:$CAUGHT"
