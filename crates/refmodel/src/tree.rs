//! Geometry-aware decoding: the same format rules as `decode`, but keeping where every unsized
//! node lives (start, available bytes, extent) and listing every header field / constrained
//! byte of the image. Written separately from `decode` on purpose: the engines assert that both
//! agree on every image they see.

use crate::{c_offsets, ceil, floor, read_uint, Desc, Reject, Value};

#[derive(Clone, Debug, PartialEq, Eq)]
pub struct TNode {
    /// offset of the node inside the top-level slice
    pub start: usize,
    /// bytes available to the node (its region, before flooring to its alignment)
    pub avail: usize,
    pub extent: usize,
    pub kind: TKind,
}

#[derive(Clone, Debug, PartialEq, Eq)]
pub enum TKind {
    Sized(Value),
    Vec { cap: usize, items: Vec<Value>, elem_size: usize, data_off: usize },
    Str { cap: usize, bytes: Vec<u8>, data_off: usize },
    Struct(Vec<TNode>),
    Enum(usize, Vec<TNode>),
    /// `term`: absolute position of the zero slot, or None when the last item is marked MAX
    Flex { items: Vec<TNode>, slots: Vec<usize>, term: Option<usize>, slot_size: usize },
}

impl TNode {
    pub fn value(&self) -> Value {
        match &self.kind {
            TKind::Sized(v) => v.clone(),
            TKind::Vec { items, .. } => Value::Vec(items.clone()),
            TKind::Str { bytes, .. } => Value::Str(bytes.clone()),
            TKind::Struct(f) => Value::Struct(f.iter().map(|x| x.value()).collect()),
            TKind::Enum(t, f) => Value::Enum(*t, f.iter().map(|x| x.value()).collect()),
            TKind::Flex { items, .. } => Value::Flex(items.iter().map(|x| x.value()).collect()),
        }
    }
    pub fn child(&self, i: usize) -> Option<&TNode> {
        match &self.kind {
            TKind::Struct(f) | TKind::Enum(_, f) => f.get(i),
            TKind::Flex { items, .. } => items.get(i),
            _ => None,
        }
    }
    pub fn at_path(&self, path: &[usize]) -> Option<&TNode> {
        match path.split_first() {
            None => Some(self),
            Some((i, r)) => self.child(*i)?.at_path(r),
        }
    }
}

#[derive(Clone, Debug, PartialEq, Eq)]
pub enum HKind {
    /// container length; `cap` = capacity in this image
    Len { cap: u128, max: u128 },
    /// enum tag (sized or unsized, c-like included)
    Tag { count: usize },
    /// FlexVec offset slot; `remaining` = bytes from the slot start to the end of the region
    Off { slot: usize, remaining: usize, align: usize, max: u128 },
    Bool,
    /// one byte of string content
    Utf8,
}

#[derive(Clone, Debug, PartialEq, Eq)]
pub struct HField {
    pub at: usize,
    pub size: usize,
    pub be: bool,
    pub kind: HKind,
    pub cur: u128,
}

pub fn decode_tree(d: &Desc, bytes: &[u8]) -> Result<(TNode, Vec<HField>), Reject> {
    let mut h = Vec::new();
    let t = dt(d, bytes, 0, bytes.len(), &mut h)?;
    Ok((t, h))
}

fn sh(e: Reject, by: usize) -> Reject {
    match e {
        Reject::Short => Reject::Short,
        Reject::Content { lo, hi, tag } => Reject::Content { lo: lo + by, hi: hi + by, tag },
        Reject::Framing { at } => Reject::Framing { at: at + by },
    }
}

/// decode the node of type `d` living at `all[start .. start+avail]`; errors are absolute.
fn dt(d: &Desc, all: &[u8], start: usize, avail: usize, h: &mut Vec<HField>) -> Result<TNode, Reject> {
    if d.is_sized() {
        let sz = d.size();
        if avail < sz {
            return Err(Reject::Short);
        }
        let v = ds(d, all, start, h)?;
        return Ok(TNode { start, avail, extent: sz, kind: TKind::Sized(v) });
    }
    let a = d.align();
    let n = floor(avail, a);
    if n < d.min_size() {
        return Err(Reject::Short);
    }
    let r = &all[start..start + n];
    match d {
        Desc::Vec { elem, len } => {
            let off = d.data_offset();
            let l = len.read(r);
            let es = elem.size();
            let cap: u128 = if es == 0 { len.max() } else { (((n - off) / es) as u128).min(len.max()) };
            h.push(HField { at: start, size: len.size, be: len.be, kind: HKind::Len { cap, max: len.max() }, cur: l });
            if l > cap {
                return Err(Reject::Short);
            }
            let mut items = Vec::new();
            for i in 0..l as usize {
                items.push(ds(elem, all, start + off + i * es, h)?);
            }
            Ok(TNode { start, avail, extent: ceil(off + l as usize * es, a), kind: TKind::Vec { cap: cap as usize, items, elem_size: es, data_off: off } })
        }
        Desc::Str { len } => {
            let off = len.size;
            let l = len.read(r);
            let cap = ((n - off) as u128).min(len.max());
            h.push(HField { at: start, size: len.size, be: len.be, kind: HKind::Len { cap, max: len.max() }, cur: l });
            if l > cap {
                return Err(Reject::Short);
            }
            let l = l as usize;
            let s = &r[off..off + l];
            if let Err(e) = std::str::from_utf8(s) {
                let lo = start + off + e.valid_up_to();
                let hi = match e.error_len() {
                    Some(k) => lo + k,
                    None => start + off + l,
                };
                return Err(Reject::Content { lo, hi, tag: false });
            }
            for i in 0..l {
                h.push(HField { at: start + off + i, size: 1, be: false, kind: HKind::Utf8, cur: s[i] as u128 });
            }
            Ok(TNode { start, avail, extent: ceil(off + l, a), kind: TKind::Str { cap: cap as usize, bytes: s.to_vec(), data_off: off } })
        }
        Desc::Struct { fields, .. } => {
            let (nodes, end) = dfields(fields, all, start, n, h)?;
            Ok(TNode { start, avail, extent: ceil(end, a), kind: TKind::Struct(nodes) })
        }
        Desc::Enum { tag, variants, .. } => {
            let t = read_uint(&r[..*tag], false);
            h.push(HField { at: start, size: *tag, be: false, kind: HKind::Tag { count: variants.len() }, cur: t });
            if t >= variants.len() as u128 {
                return Err(Reject::Content { lo: start, hi: start + *tag, tag: true });
            }
            let t = t as usize;
            let off = d.enum_data_offset();
            if n - off < Desc::fields_min(&variants[t]) {
                return Err(Reject::Short);
            }
            let (nodes, end) = dfields(&variants[t], all, start + off, n - off, h)?;
            Ok(TNode { start, avail, extent: ceil(off + end, a), kind: TKind::Enum(t, nodes) })
        }
        Desc::Flex { item, len } => {
            let os = d.data_offset();
            let mut pos = 0usize;
            let mut items = Vec::new();
            let mut slots = Vec::new();
            loop {
                if n - pos < os {
                    return Err(Reject::Short);
                }
                let off = len.read(&r[pos..]);
                h.push(HField {
                    at: start + pos,
                    size: len.size,
                    be: len.be,
                    kind: HKind::Off { slot: os, remaining: n - pos, align: a, max: len.max() },
                    cur: off,
                });
                if off == 0 {
                    return Ok(TNode { start, avail, extent: ceil(pos + os, a), kind: TKind::Flex { items, slots, term: Some(start + pos), slot_size: os } });
                }
                slots.push(start + pos);
                if off == len.max() {
                    let p = pos + os;
                    let it = dt(item, all, start + p, n - p, h)?;
                    let e = p + ceil(it.extent, a);
                    items.push(it);
                    return Ok(TNode { start, avail, extent: e, kind: TKind::Flex { items, slots, term: None, slot_size: os } });
                }
                if off < os as u128 || off % a as u128 != 0 {
                    return Err(Reject::Framing { at: start + pos });
                }
                if off > (n - pos) as u128 {
                    return Err(Reject::Short);
                }
                let off = off as usize;
                let p = pos + os;
                let it = dt(item, all, start + p, off - os, h).map_err(|e| match e {
                    Reject::Short => Reject::Framing { at: start + pos },
                    o => o,
                })?;
                items.push(it);
                pos += off;
            }
        }
        _ => unreachable!(),
    }
}

fn dfields(fields: &[Desc], all: &[u8], start: usize, avail: usize, h: &mut Vec<HField>) -> Result<(Vec<TNode>, usize), Reject> {
    let (offs, _) = c_offsets(fields);
    let mut nodes = Vec::new();
    let mut end = 0;
    for (i, f) in fields.iter().enumerate() {
        let o = offs[i];
        if f.is_sized() {
            if avail < o + f.size() {
                return Err(Reject::Short);
            }
            let v = ds(f, all, start + o, h)?;
            nodes.push(TNode { start: start + o, avail: f.size(), extent: f.size(), kind: TKind::Sized(v) });
            end = o + f.size();
        } else {
            if avail < o {
                return Err(Reject::Short);
            }
            let t = dt(f, all, start + o, avail - o, h)?;
            end = o + t.extent;
            nodes.push(t);
        }
    }
    Ok((nodes, end))
}

/// sized decode at absolute position `at`
fn ds(d: &Desc, all: &[u8], at: usize, h: &mut Vec<HField>) -> Result<Value, Reject> {
    Ok(match d {
        Desc::Unit => Value::Unit,
        Desc::Prim { size, .. } => Value::Scalar(read_uint(&all[at..at + size], false)),
        Desc::PScalar { size, be } => Value::Scalar(read_uint(&all[at..at + size], *be)),
        Desc::Bool => {
            h.push(HField { at, size: 1, be: false, kind: HKind::Bool, cur: all[at] as u128 });
            if all[at] > 1 {
                return Err(Reject::Content { lo: at, hi: at + 1, tag: false });
            }
            Value::Scalar(all[at] as u128)
        }
        Desc::CEnum { tag, count, discs, .. } => {
            let t = read_uint(&all[at..at + tag], false);
            h.push(HField { at, size: *tag, be: false, kind: HKind::Tag { count: *count }, cur: t });
            if discs.as_ref().map_or(t >= *count as u128, |d| !d.contains(&t)) {
                return Err(Reject::Content { lo: at, hi: at + tag, tag: true });
            }
            Value::Scalar(t)
        }
        Desc::Array(e, n) => {
            let es = e.size();
            let mut v = Vec::new();
            for i in 0..*n {
                v.push(ds(e, all, at + i * es, h)?);
            }
            Value::Array(v)
        }
        Desc::Struct { fields, .. } => {
            let (offs, _) = c_offsets(fields);
            let mut v = Vec::new();
            for (i, f) in fields.iter().enumerate() {
                v.push(ds(f, all, at + offs[i], h)?);
            }
            Value::Struct(v)
        }
        Desc::Enum { tag, variants, .. } => {
            let t = read_uint(&all[at..at + tag], false);
            h.push(HField { at, size: *tag, be: false, kind: HKind::Tag { count: variants.len() }, cur: t });
            if t >= variants.len() as u128 {
                return Err(Reject::Content { lo: at, hi: at + tag, tag: true });
            }
            let t = t as usize;
            let off = d.enum_data_offset();
            let (offs, _) = c_offsets(&variants[t]);
            let mut v = Vec::new();
            for (i, f) in variants[t].iter().enumerate() {
                v.push(ds(f, all, at + off + offs[i], h)?);
            }
            Value::Enum(t, v)
        }
        _ => unreachable!(),
    })
}

/// Error class of `sh` kept for symmetry with `decode` (positions there are relative and shifted
/// on the way out; here they are absolute from the start).
#[allow(dead_code)]
fn _unused(e: Reject) -> Reject {
    sh(e, 0)
}
