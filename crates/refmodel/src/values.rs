//! Bounded, deterministic value enumeration per descriptor.
//!
//! Alphabets: every leaf has 2-3 values chosen so that each byte of the leaf is distinct and
//! non-zero in at least one of them; containers take every length `0..=min(cap, max_len)` (and the
//! full capacity when small) with two fillings; composites take the full product when small and
//! an "each value of each field at least once" cover plus the head of the product otherwise.

use crate::{encode, floor, Desc, Value};

#[derive(Clone, Debug)]
pub struct Limits {
    /// cap on the number of values produced per node
    pub max_values: usize,
    /// largest container length enumerated below capacity
    pub max_len: usize,
    /// also take the exactly-full container when capacity <= this
    pub full_cap: usize,
    /// leaf alphabet size (2 or 3)
    pub leaf: usize,
    /// number of distinct item values used inside FlexVec lists
    pub flex_items: usize,
    pub flex_len: usize,
}

impl Limits {
    pub fn quick() -> Self {
        Limits { max_values: 24, max_len: 2, full_cap: 6, leaf: 2, flex_items: 2, flex_len: 2 }
    }
    pub fn thorough() -> Self {
        Limits { max_values: 96, max_len: 3, full_cap: 9, leaf: 3, flex_items: 3, flex_len: 3 }
    }
}

fn pattern(size: usize) -> u128 {
    // bytes 01 02 03 ... (little end first): every byte distinct and non-zero
    let mut v = 0u128;
    for i in 0..size.min(16) {
        v |= ((i as u128 + 1) & 0xff) << (8 * i);
    }
    v
}
fn all_ones(size: usize) -> u128 {
    if size >= 16 {
        u128::MAX
    } else {
        (1u128 << (8 * size)) - 1
    }
}

fn leaf_alphabet(size: usize, k: usize) -> Vec<Value> {
    let mut v = vec![Value::Scalar(pattern(size)), Value::Scalar(all_ones(size)), Value::Scalar(0)];
    v.truncate(k.max(1));
    v
}

fn product(lists: &[Vec<Value>], cap: usize) -> Vec<Vec<Value>> {
    if lists.iter().any(|l| l.is_empty()) {
        return vec![];
    }
    let total: usize = lists.iter().map(|l| l.len()).fold(1usize, |a, b| a.saturating_mul(b));
    let mut out: Vec<Vec<Value>> = Vec::new();
    if total <= cap {
        let mut idx = vec![0usize; lists.len()];
        loop {
            out.push(idx.iter().enumerate().map(|(i, &j)| lists[i][j].clone()).collect());
            let mut k = lists.len();
            loop {
                if k == 0 {
                    return out;
                }
                k -= 1;
                idx[k] += 1;
                if idx[k] < lists[k].len() {
                    break;
                }
                idx[k] = 0;
            }
        }
    }
    // each-choice cover
    let m = lists.iter().map(|l| l.len()).max().unwrap_or(0);
    for i in 0..m {
        out.push(lists.iter().map(|l| l[i % l.len()].clone()).collect());
    }
    // head of the product in odometer order (last field fastest)
    let mut idx = vec![0usize; lists.len()];
    while out.len() < cap {
        let c: Vec<Value> = idx.iter().enumerate().map(|(i, &j)| lists[i][j].clone()).collect();
        if !out.contains(&c) {
            out.push(c);
        }
        let mut k = lists.len();
        let mut done = false;
        loop {
            if k == 0 {
                done = true;
                break;
            }
            k -= 1;
            idx[k] += 1;
            if idx[k] < lists[k].len() {
                break;
            }
            idx[k] = 0;
        }
        if done {
            break;
        }
    }
    out
}

/// Values of `d` that fit into `avail` bytes (canonical encoding).
pub fn enum_values(d: &Desc, avail: usize, lim: &Limits) -> Vec<Value> {
    let mut v = gen(d, avail, lim);
    v.retain(|x| encode(d, x, avail, 0).is_ok());
    v.dedup();
    let mut seen = std::collections::HashSet::new();
    v.retain(|x| seen.insert(x.clone()));
    v
}

fn gen_fields(fields: &[Desc], avail: usize, lim: &Limits) -> Vec<Vec<Value>> {
    let (offs, _) = crate::c_offsets(fields);
    let lists: Vec<Vec<Value>> = fields
        .iter()
        .enumerate()
        .map(|(i, f)| {
            let a = if f.is_sized() { f.size() } else { avail.saturating_sub(offs[i]) };
            let mut l = gen(f, a, lim);
            // nested composite fields: keep the per-field list short
            l.truncate(if fields.len() > 1 { lim.max_values.min(6).max(lim.leaf) } else { lim.max_values });
            l
        })
        .collect();
    product(&lists, lim.max_values)
}

fn gen(d: &Desc, avail: usize, lim: &Limits) -> Vec<Value> {
    match d {
        Desc::Unit => vec![Value::Unit],
        Desc::Prim { size, .. } | Desc::PScalar { size, .. } => leaf_alphabet(*size, lim.leaf),
        Desc::Bool => vec![Value::Scalar(1), Value::Scalar(0)],
        Desc::CEnum { count, discs, .. } => match discs {
            Some(d) => d.iter().rev().map(|x| Value::Scalar(*x)).collect(),
            None => (0..*count).rev().map(|i| Value::Scalar(i as u128)).collect(),
        },
        Desc::Array(e, n) => {
            let al = gen(e, e.size(), lim);
            if *n == 0 || al.is_empty() {
                return vec![Value::Array(vec![])];
            }
            let mut out = Vec::new();
            for start in 0..al.len().min(lim.leaf) {
                out.push(Value::Array((0..*n).map(|i| al[(start + i) % al.len()].clone()).collect()));
            }
            out.dedup();
            out
        }
        Desc::Struct { fields, sized } => {
            let a = if *sized { d.size() } else { floor(avail, d.align()) };
            gen_fields(fields, a, lim).into_iter().map(Value::Struct).collect()
        }
        Desc::Enum { variants, sized, .. } => {
            let off = d.enum_data_offset();
            let a = if *sized { d.size() } else { floor(avail, d.align()) };
            let mut out = Vec::new();
            let per = (lim.max_values / variants.len().max(1)).max(2);
            for (t, v) in variants.iter().enumerate() {
                if v.is_empty() {
                    out.push(Value::Enum(t, vec![]));
                    continue;
                }
                let mut l2 = lim.clone();
                l2.max_values = per;
                for fs in gen_fields(v, a.saturating_sub(off), &l2) {
                    out.push(Value::Enum(t, fs));
                }
            }
            out
        }
        Desc::Vec { elem, len } => {
            let a = floor(avail, d.align());
            let off = d.data_offset();
            if a < off {
                return vec![];
            }
            let es = elem.size();
            let cap = if es == 0 { len.max().min(4) as usize } else { (((a - off) / es) as u128).min(len.max()) as usize };
            let al = gen(elem, es, lim);
            let mut lens: Vec<usize> = (0..=cap.min(lim.max_len)).collect();
            if cap > lim.max_len && cap <= lim.full_cap {
                lens.push(cap);
            }
            let mut out = Vec::new();
            for l in lens {
                if l == 0 || al.is_empty() {
                    out.push(Value::Vec(vec![]));
                    continue;
                }
                for start in 0..al.len().min(2) {
                    out.push(Value::Vec((0..l).map(|i| al[(start + i) % al.len()].clone()).collect()));
                }
            }
            out.dedup();
            out
        }
        Desc::Str { len } => {
            let a = floor(avail, d.align());
            if a < len.size {
                return vec![];
            }
            let cap = (((a - len.size) as u128).min(len.max())) as usize;
            let mut cands: Vec<Vec<u8>> = vec![b"".to_vec(), b"a".to_vec(), "é".as_bytes().to_vec(), "ab€".as_bytes().to_vec(), "𝄞".as_bytes().to_vec()];
            if cap <= lim.full_cap && cap > 0 {
                cands.push(vec![b'z'; cap]);
            }
            cands.retain(|s| s.len() <= cap);
            cands.into_iter().map(Value::Str).collect()
        }
        Desc::Flex { item, len } => {
            let a = floor(avail, d.align());
            let os = d.data_offset();
            if a < os {
                return vec![];
            }
            let _ = len;
            // item values as they would fit alone
            let mut iv = gen(item, a - os, lim);
            // prefer small items first so that lists fit
            iv.sort_by_key(|v| encode(item, v, a - os, 0).map(|i| i.extent).unwrap_or(usize::MAX));
            let mut pick: Vec<Value> = Vec::new();
            // smallest, a middle one, the largest that fits
            if !iv.is_empty() {
                pick.push(iv[0].clone());
                if iv.len() > 2 && lim.flex_items > 2 {
                    pick.push(iv[iv.len() / 2].clone());
                }
                if iv.len() > 1 {
                    pick.push(iv[iv.len() - 1].clone());
                }
            }
            pick.dedup();
            let mut out = vec![Value::Flex(vec![])];
            let mut frontier: Vec<Vec<Value>> = vec![vec![]];
            for _ in 0..lim.flex_len {
                let mut next = Vec::new();
                for f in &frontier {
                    for p in &pick {
                        let mut g = f.clone();
                        g.push(p.clone());
                        next.push(g);
                    }
                }
                for g in &next {
                    out.push(Value::Flex(g.clone()));
                }
                frontier = next;
                if out.len() > lim.max_values * 2 {
                    break;
                }
            }
            out
        }
    }
}

// ------------------------------------------------------------------------------------------
// scale ladder: one big value per size, for the facts that only show beyond the small scope
// ------------------------------------------------------------------------------------------

/// Container sizes around every power of two up to the 16-bit boundary (the places where a length,
/// an offset or a counter changes width or sign), plus a few sizes in between.
pub fn scale_ladder(thorough: bool) -> Vec<usize> {
    let mut v: Vec<usize> = vec![17, 31, 32, 33, 63, 64, 65, 100, 127, 128, 129, 200, 254, 255, 256, 257, 300];
    if thorough {
        v.extend([511, 512, 513, 1000, 1023, 1024, 1025, 4095, 4096, 4097, 32767, 32768, 32769, 65534, 65535, 65536, 65537, 70000]);
    }
    v
}

fn first_values(d: &Desc, k: usize) -> Vec<Value> {
    let avail = if d.is_sized() { d.size() } else { d.min_size() + 2 * d.align() + 4 };
    let mut v = enum_values(d, avail, &Limits::quick());
    // the smallest value and a larger one (values come smallest first)
    if v.len() > k.max(1) {
        let last = v.pop().unwrap();
        v.truncate(k.max(1) - 1);
        if k > 1 {
            v.push(last);
        }
    }
    v
}

/// A value of `d` whose (outermost, last) container holds exactly `n` elements / bytes / items; None when
/// the type has no such container or its length type cannot count to `n`.
pub fn scaled_value(d: &Desc, n: usize) -> Option<Value> {
    match d {
        Desc::Vec { elem, len } => {
            if n as u128 > len.max() {
                return None;
            }
            let al = first_values(elem, 3);
            if al.is_empty() {
                return None;
            }
            Some(Value::Vec((0..n).map(|i| al[(i * 7 + i / 5) % al.len()].clone()).collect()))
        }
        Desc::Str { len } => {
            if n as u128 > len.max() {
                return None;
            }
            // exactly n bytes of UTF-8: a two-byte character first (when it fits), ASCII behind it
            let mut s: Vec<u8> = Vec::with_capacity(n);
            if n >= 2 {
                s.extend_from_slice("é".as_bytes());
            }
            while s.len() < n {
                s.push(b'a' + (s.len() % 26) as u8);
            }
            Some(Value::Str(s))
        }
        Desc::Flex { item, len } => {
            let al = first_values(item, 2);
            if al.is_empty() {
                return None;
            }
            // every offset (slot + rounded item size) must be representable below the last-item marker
            let a = d.align();
            for v in &al {
                let sz = encode(item, v, 1 << 20, 0).ok()?.extent;
                if (d.data_offset() + crate::ceil(sz, a)) as u128 >= len.max() {
                    return None;
                }
            }
            Some(Value::Flex((0..n).map(|i| al[(i + i / 3) % al.len()].clone()).collect()))
        }
        Desc::Struct { fields, sized: false } => {
            let (last, head) = fields.split_last()?;
            let mut f: Vec<Value> = head.iter().map(|h| first_values(h, 1).into_iter().next()).collect::<Option<Vec<_>>>()?;
            f.push(scaled_value(last, n)?);
            Some(Value::Struct(f))
        }
        Desc::Enum { variants, sized: false, .. } => {
            for (vi, fs) in variants.iter().enumerate() {
                if let Some((last, head)) = fs.split_last() {
                    if !last.is_sized() {
                        if let Some(t) = scaled_value(last, n) {
                            let mut f: Vec<Value> = head.iter().map(|h| first_values(h, 1).into_iter().next()).collect::<Option<Vec<_>>>()?;
                            f.push(t);
                            return Some(Value::Enum(vi, f));
                        }
                    }
                }
            }
            None
        }
        _ => None,
    }
}

/// FlexVec values whose LAST item is large — its sealing offset would lie just below, at and above the
/// maximum of the offset type. The last item is never sealed, so all of these are legitimate contents of a
/// large enough buffer. For structs / enums the FlexVec is looked for at the end of the (outermost) tail.
pub fn flex_big_last(d: &Desc, max_k: usize) -> Vec<Value> {
    fn at_flex(d: &Desc, item: &Desc, len: &crate::LenTy, max_k: usize) -> Vec<Value> {
        let small = first_values(item, 1);
        let lmax = len.max().min(1 << 17) as usize;
        let mut ks: Vec<usize> = vec![300];
        for dlt in 0..8usize {
            ks.push(lmax.saturating_sub(dlt));
        }
        ks.push(lmax + 1);
        ks.retain(|k| *k > 5 && *k <= max_k);
        ks.sort();
        ks.dedup();
        let mut out = vec![];
        for k in ks {
            // the item type's own scalable container decides what "k" counts (elements, bytes, items)
            if let Some(big) = scaled_value(item, k) {
                // only if the item itself is representable (its own length type can count to k)
                out.push(Value::Flex(vec![big.clone()]));
                if let Some(s) = small.first() {
                    out.push(Value::Flex(vec![s.clone(), big]));
                }
            }
        }
        let _ = d;
        out
    }
    match d {
        Desc::Flex { item, len } => at_flex(d, item, len, max_k),
        Desc::Struct { fields, sized: false } => {
            let (last, head) = match fields.split_last() {
                Some(x) => x,
                None => return vec![],
            };
            let hv: Option<Vec<Value>> = head.iter().map(|h| first_values(h, 1).into_iter().next()).collect();
            match hv {
                Some(hv) => flex_big_last(last, max_k)
                    .into_iter()
                    .map(|t| {
                        let mut f = hv.clone();
                        f.push(t);
                        Value::Struct(f)
                    })
                    .collect(),
                None => vec![],
            }
        }
        Desc::Enum { variants, sized: false, .. } => {
            for (vi, fs) in variants.iter().enumerate() {
                if let Some((last, head)) = fs.split_last() {
                    if !last.is_sized() {
                        let tails = flex_big_last(last, max_k);
                        if !tails.is_empty() {
                            let hv: Option<Vec<Value>> = head.iter().map(|h| first_values(h, 1).into_iter().next()).collect();
                            if let Some(hv) = hv {
                                return tails
                                    .into_iter()
                                    .map(|t| {
                                        let mut f = hv.clone();
                                        f.push(t);
                                        Value::Enum(vi, f)
                                    })
                                    .collect();
                            }
                        }
                    }
                }
            }
            vec![]
        }
        _ => vec![],
    }
}
