//! Independent reference model of the flatty format.
//!
//! Never calls flatty and shares no constants with it: plain C layout arithmetic, a recursive
//! decoder / encoder over a type descriptor, and the "floor rule" for unsized values (a value of
//! an unsized type mapped on `n` bytes covers `floor(n, ALIGN)` bytes).
//!
//! Host assumptions (asserted by the harness): little-endian, 64-bit.

pub mod model;
pub mod ops;
pub mod tree;
pub mod values;

use std::fmt;

#[derive(Clone, Debug, PartialEq, Eq, Hash)]
pub struct LenTy {
    pub size: usize,
    pub align: usize,
    pub be: bool,
}

impl LenTy {
    pub const fn native(size: usize) -> Self {
        LenTy { size, align: size, be: false }
    }
    pub const fn portable(size: usize, be: bool) -> Self {
        LenTy { size, align: 1, be }
    }
    pub fn max(&self) -> u128 {
        if self.size >= 16 {
            u128::MAX
        } else {
            (1u128 << (8 * self.size)) - 1
        }
    }
    pub fn read(&self, b: &[u8]) -> u128 {
        read_uint(&b[..self.size], self.be)
    }
    pub fn write(&self, b: &mut [u8], v: u128) {
        write_uint(&mut b[..self.size], v, self.be)
    }
}

pub fn read_uint(b: &[u8], be: bool) -> u128 {
    let mut v = 0u128;
    if be {
        for x in b {
            v = (v << 8) | *x as u128;
        }
    } else {
        for x in b.iter().rev() {
            v = (v << 8) | *x as u128;
        }
    }
    v
}
pub fn write_uint(b: &mut [u8], v: u128, be: bool) {
    let n = b.len();
    for i in 0..n {
        let byte = ((v >> (8 * i)) & 0xff) as u8;
        if be {
            b[n - 1 - i] = byte;
        } else {
            b[i] = byte;
        }
    }
}

#[derive(Clone, Debug, PartialEq, Eq, Hash)]
pub enum Desc {
    Unit,
    /// Plain native scalar (ints, floats): every bit pattern valid.
    Prim { size: usize, align: usize },
    /// `portable::Bool`: one byte, 0 or 1.
    Bool,
    /// Portable int / float: byte array in fixed order, align 1.
    PScalar { size: usize, be: bool },
    Array(Box<Desc>, usize),
    /// Sized C-like enum, `repr(tag)`.
    /// `discs`: the explicit discriminants of the variants (None: 0, 1, 2, ...). A value of the type is the
    /// stored discriminant.
    CEnum { tag: usize, count: usize, default: usize, discs: Option<Vec<u128>> },
    Struct { fields: Vec<Desc>, sized: bool },
    Enum { tag: usize, variants: Vec<Vec<Desc>>, sized: bool, default: Option<usize> },
    Vec { elem: Box<Desc>, len: LenTy },
    Str { len: LenTy },
    Flex { item: Box<Desc>, len: LenTy },
}

#[derive(Clone, PartialEq, Eq, Hash, PartialOrd, Ord)]
pub enum Value {
    Unit,
    /// Logical unsigned value of the bits (Prim, PScalar), 0/1 (Bool), variant index (CEnum).
    Scalar(u128),
    Array(Vec<Value>),
    Struct(Vec<Value>),
    Enum(usize, Vec<Value>),
    Vec(Vec<Value>),
    Str(Vec<u8>),
    Flex(Vec<Value>),
}

impl fmt::Debug for Value {
    fn fmt(&self, f: &mut fmt::Formatter<'_>) -> fmt::Result {
        match self {
            Value::Unit => write!(f, "()"),
            Value::Scalar(x) => write!(f, "{:#x}", x),
            Value::Array(v) => write!(f, "arr{:?}", v),
            Value::Struct(v) => write!(f, "S{:?}", v),
            Value::Enum(i, v) => write!(f, "E{}{:?}", i, v),
            Value::Vec(v) => write!(f, "vec{:?}", v),
            Value::Str(s) => write!(f, "str{:?}", String::from_utf8_lossy(s)),
            Value::Flex(v) => write!(f, "flex{:?}", v),
        }
    }
}

pub fn ceil(x: usize, m: usize) -> usize {
    (x + m - 1) / m * m
}
pub fn floor(x: usize, m: usize) -> usize {
    x / m * m
}

/// Offsets of a `repr(C)` field list starting at 0; returns (offsets, end_of_last_field).
/// The last field may be unsized (its size is then taken as 0 for the "end").
pub fn c_offsets(fields: &[Desc]) -> (Vec<usize>, usize) {
    let mut offs = Vec::new();
    let mut pos = 0;
    for f in fields {
        pos = ceil(pos, f.align());
        offs.push(pos);
        if f.is_sized() {
            pos += f.size();
        }
    }
    (offs, pos)
}

impl Desc {
    pub fn is_sized(&self) -> bool {
        match self {
            Desc::Unit | Desc::Prim { .. } | Desc::Bool | Desc::PScalar { .. } | Desc::Array(..) | Desc::CEnum { .. } => true,
            Desc::Struct { sized, .. } | Desc::Enum { sized, .. } => *sized,
            Desc::Vec { .. } | Desc::Str { .. } | Desc::Flex { .. } => false,
        }
    }

    pub fn align(&self) -> usize {
        match self {
            Desc::Unit | Desc::Bool | Desc::PScalar { .. } => 1,
            Desc::Prim { align, .. } => *align,
            Desc::Array(e, _) => e.align(),
            Desc::CEnum { tag, .. } => *tag,
            Desc::Struct { fields, .. } => fields.iter().map(|f| f.align()).max().unwrap_or(1),
            Desc::Enum { tag, variants, .. } => variants
                .iter()
                .flat_map(|v| v.iter())
                .map(|f| f.align())
                .max()
                .unwrap_or(1)
                .max(*tag),
            Desc::Vec { elem, len } => elem.align().max(len.align),
            Desc::Str { len } => len.align,
            Desc::Flex { item, len } => item.align().max(len.align),
        }
    }

    /// Static size of a sized type (C rule).
    pub fn size(&self) -> usize {
        assert!(self.is_sized(), "size() of unsized {:?}", self);
        match self {
            Desc::Unit => 0,
            Desc::Prim { size, .. } => *size,
            Desc::Bool => 1,
            Desc::PScalar { size, .. } => *size,
            Desc::Array(e, n) => e.size() * n,
            Desc::CEnum { tag, .. } => *tag,
            Desc::Struct { fields, .. } => {
                let (_, end) = c_offsets(fields);
                ceil(end, self.align())
            }
            Desc::Enum { variants, .. } => {
                let off = self.enum_data_offset();
                let mut end = off;
                for v in variants {
                    let (_, e) = c_offsets(v);
                    // the union member is itself a repr(C) struct: its size is rounded to its own alignment
                    let va = v.iter().map(|f| f.align()).max().unwrap_or(1);
                    end = end.max(off + ceil(e, va));
                }
                ceil(end, self.align())
            }
            _ => unreachable!(),
        }
    }

    /// Offset of the payload union / data area of an enum: tag, then the union aligned to the
    /// largest field alignment of any variant.
    pub fn enum_data_offset(&self) -> usize {
        match self {
            Desc::Enum { tag, variants, .. } => {
                let ua = variants.iter().flat_map(|v| v.iter()).map(|f| f.align()).max().unwrap_or(1);
                // for an unsized enum the data area is aligned like the whole type
                ceil(*tag, ua.max(if self.is_sized() { 1 } else { self.align() }))
            }
            _ => panic!("not an enum"),
        }
    }

    /// Offset of container data (Vec / Str) or width of an offset slot (Flex).
    pub fn data_offset(&self) -> usize {
        match self {
            Desc::Vec { elem, len } => len.size.max(elem.align()),
            Desc::Str { len } => len.size,
            Desc::Flex { item, len } => len.size.max(item.align()),
            _ => panic!("no data offset"),
        }
    }

    /// Minimal number of bytes a field list needs (last field at its minimum), not rounded.
    pub fn fields_min(fields: &[Desc]) -> usize {
        if fields.is_empty() {
            return 0;
        }
        let (offs, _) = c_offsets(fields);
        let last = fields.last().unwrap();
        offs[fields.len() - 1] + last.min_size()
    }

    /// Extent of the smallest value: always a multiple of the alignment.
    pub fn min_size(&self) -> usize {
        if self.is_sized() {
            return self.size();
        }
        match self {
            Desc::Vec { .. } | Desc::Str { .. } | Desc::Flex { .. } => ceil(self.data_offset(), self.align()),
            Desc::Struct { fields, .. } => ceil(Self::fields_min(fields), self.align()),
            Desc::Enum { variants, .. } => {
                let m = variants.iter().map(|v| Self::fields_min(v)).min().unwrap_or(0);
                ceil(self.enum_data_offset() + m, self.align())
            }
            _ => unreachable!(),
        }
    }

    pub fn is_portable(&self) -> bool {
        match self {
            Desc::Unit | Desc::Bool | Desc::PScalar { .. } => true,
            Desc::Prim { size, .. } => *size == 1,
            Desc::Array(e, _) => e.is_portable(),
            Desc::CEnum { tag, .. } => *tag == 1,
            Desc::Struct { fields, .. } => fields.iter().all(|f| f.is_portable()),
            Desc::Enum { tag, variants, .. } => *tag == 1 && variants.iter().flatten().all(|f| f.is_portable()),
            Desc::Vec { elem, len } => elem.is_portable() && len.align == 1,
            Desc::Str { len } => len.align == 1,
            Desc::Flex { item, len } => item.is_portable() && len.align == 1,
        }
    }

    /// Does the type contain a leaf whose byte patterns are constrained?
    pub fn has_constrained(&self) -> bool {
        match self {
            Desc::Unit | Desc::Prim { .. } | Desc::PScalar { .. } => false,
            Desc::Bool | Desc::CEnum { .. } | Desc::Enum { .. } | Desc::Str { .. } => true,
            Desc::Array(e, n) => *n > 0 && e.has_constrained(),
            Desc::Struct { fields, .. } => fields.iter().any(|f| f.has_constrained()),
            Desc::Vec { elem, .. } => elem.has_constrained(),
            Desc::Flex { item, .. } => item.has_constrained(),
        }
    }

    /// The default value (`default_in_place` contract), if the type has one.
    pub fn default_value(&self) -> Option<Value> {
        Some(match self {
            Desc::Unit => Value::Unit,
            Desc::Prim { .. } | Desc::PScalar { .. } | Desc::Bool => Value::Scalar(0),
            Desc::CEnum { default, discs, .. } => Value::Scalar(discs.as_ref().map_or(*default as u128, |d| d[*default])),
            Desc::Array(e, n) => Value::Array((0..*n).map(|_| e.default_value()).collect::<Option<Vec<_>>>()?),
            Desc::Struct { fields, .. } => Value::Struct(fields.iter().map(|f| f.default_value()).collect::<Option<Vec<_>>>()?),
            Desc::Enum { variants, default, .. } => {
                let d = (*default)?;
                Value::Enum(d, variants[d].iter().map(|f| f.default_value()).collect::<Option<Vec<_>>>()?)
            }
            Desc::Vec { .. } => Value::Vec(vec![]),
            Desc::Str { .. } => Value::Str(vec![]),
            Desc::Flex { .. } => Value::Flex(vec![]),
        })
    }
}

/// Why the reference rejects a byte string.
#[derive(Clone, Debug, PartialEq, Eq, Hash)]
pub enum Reject {
    /// More bytes could cure it.
    Short,
    /// Framing intact, a constrained leaf holds an invalid pattern in `lo..hi` (byte offsets from
    /// the start of the decoded slice). `tag` tells whether the leaf is an enum tag.
    Content { lo: usize, hi: usize, tag: bool },
    /// A structural field that no extension can make valid.
    Framing { at: usize },
}

impl Reject {
    fn shift(self, by: usize) -> Reject {
        match self {
            Reject::Short => Reject::Short,
            Reject::Content { lo, hi, tag } => Reject::Content { lo: lo + by, hi: hi + by, tag },
            Reject::Framing { at } => Reject::Framing { at: at + by },
        }
    }
}

/// Result of decoding: content, extent (multiple of ALIGN for unsized, SIZE for sized) and
/// geometry notes used by the history models.
#[derive(Clone, Debug, PartialEq, Eq)]
pub struct Decoded {
    pub value: Value,
    pub extent: usize,
}

/// Decode `bytes` as `d` under the floor rule. Alignment of the address is not judged here.
pub fn decode(d: &Desc, bytes: &[u8]) -> Result<Decoded, Reject> {
    if d.is_sized() {
        let sz = d.size();
        if bytes.len() < sz {
            return Err(Reject::Short);
        }
        let v = decode_sized(d, &bytes[..sz])?;
        return Ok(Decoded { value: v, extent: sz });
    }
    let a = d.align();
    let n = floor(bytes.len(), a);
    if n < d.min_size() {
        return Err(Reject::Short);
    }
    let r = &bytes[..n];
    match d {
        Desc::Vec { elem, len } => {
            let off = d.data_offset();
            let l = len.read(r);
            let es = elem.size();
            let cap: u128 = if es == 0 { len.max() } else { (((n - off) / es) as u128).min(len.max()) };
            if l > cap {
                // a longer buffer could cure it unless the length type is exhausted (cannot be: l <= max)
                return Err(Reject::Short);
            }
            let l = l as usize;
            let mut items = Vec::with_capacity(l);
            for i in 0..l {
                let o = off + i * es;
                items.push(decode_sized(elem, &r[o..o + es]).map_err(|e| e.shift(o))?);
            }
            Ok(Decoded { value: Value::Vec(items), extent: ceil(off + l * es, a) })
        }
        Desc::Str { len } => {
            let off = len.size;
            let l = len.read(r);
            let cap = ((n - off) as u128).min(len.max());
            if l > cap {
                return Err(Reject::Short);
            }
            let l = l as usize;
            let s = &r[off..off + l];
            if let Err(e) = std::str::from_utf8(s) {
                let lo = off + e.valid_up_to();
                let hi = match e.error_len() {
                    Some(k) => lo + k,
                    None => off + l,
                };
                return Err(Reject::Content { lo, hi, tag: false });
            }
            Ok(Decoded { value: Value::Str(s.to_vec()), extent: ceil(off + l, a) })
        }
        Desc::Struct { fields, .. } => {
            let (vals, end) = decode_fields(fields, r)?;
            Ok(Decoded { value: Value::Struct(vals), extent: ceil(end, a) })
        }
        Desc::Enum { tag, variants, .. } => {
            let t = read_uint(&r[..*tag], false);
            if t >= variants.len() as u128 {
                return Err(Reject::Content { lo: 0, hi: *tag, tag: true });
            }
            let t = t as usize;
            let off = d.enum_data_offset();
            let data = &r[off..];
            if data.len() < Desc::fields_min(&variants[t]) {
                return Err(Reject::Short);
            }
            let (vals, end) = decode_fields(&variants[t], data).map_err(|e| e.shift(off))?;
            Ok(Decoded { value: Value::Enum(t, vals), extent: ceil(off + end, a) })
        }
        Desc::Flex { item, len } => {
            let os = d.data_offset();
            let mut pos = 0usize;
            let mut items = Vec::new();
            loop {
                if n - pos < os {
                    return Err(Reject::Short);
                }
                let off = len.read(&r[pos..]);
                if off == 0 {
                    return Ok(Decoded { value: Value::Flex(items), extent: ceil(pos + os, a) });
                }
                if off == len.max() {
                    let p = pos + os;
                    let it = decode(item, &r[p..]).map_err(|e| e.shift(p))?;
                    items.push(it.value);
                    return Ok(Decoded { value: Value::Flex(items), extent: p + ceil(it.extent, a) });
                }
                if off < os as u128 {
                    return Err(Reject::Framing { at: pos });
                }
                if off % a as u128 != 0 {
                    return Err(Reject::Framing { at: pos });
                }
                if off > (n - pos) as u128 {
                    return Err(Reject::Short);
                }
                let off = off as usize;
                let p = pos + os;
                let it = decode(item, &r[p..pos + off]).map_err(|e| match e {
                    Reject::Short => Reject::Framing { at: pos },
                    o => o.shift(p),
                })?;
                // the item must fit the sealed region with its rounded extent
                if p + ceil(it.extent, a) > pos + off {
                    return Err(Reject::Framing { at: pos });
                }
                items.push(it.value);
                pos += off;
            }
        }
        _ => unreachable!(),
    }
}

/// Decode a field list laid out by the C rule inside `r` (the last field may be unsized and then
/// owns the rest). Returns values and the end offset of the used data (unrounded).
fn decode_fields(fields: &[Desc], r: &[u8]) -> Result<(Vec<Value>, usize), Reject> {
    let (offs, _) = c_offsets(fields);
    let mut vals = Vec::new();
    let mut end = 0;
    for (i, f) in fields.iter().enumerate() {
        let o = offs[i];
        if f.is_sized() {
            if r.len() < o + f.size() {
                return Err(Reject::Short);
            }
            vals.push(decode_sized(f, &r[o..o + f.size()]).map_err(|e| e.shift(o))?);
            end = o + f.size();
        } else {
            assert_eq!(i, fields.len() - 1);
            if r.len() < o {
                return Err(Reject::Short);
            }
            let d = decode(f, &r[o..]).map_err(|e| e.shift(o))?;
            vals.push(d.value);
            end = o + d.extent;
        }
    }
    Ok((vals, end))
}

fn decode_sized(d: &Desc, b: &[u8]) -> Result<Value, Reject> {
    debug_assert_eq!(b.len(), d.size());
    Ok(match d {
        Desc::Unit => Value::Unit,
        Desc::Prim { .. } => Value::Scalar(read_uint(b, false)),
        Desc::PScalar { be, .. } => Value::Scalar(read_uint(b, *be)),
        Desc::Bool => {
            if b[0] > 1 {
                return Err(Reject::Content { lo: 0, hi: 1, tag: false });
            }
            Value::Scalar(b[0] as u128)
        }
        Desc::CEnum { tag, count, discs, .. } => {
            let t = read_uint(b, false);
            if discs.as_ref().map_or(t >= *count as u128, |d| !d.contains(&t)) {
                return Err(Reject::Content { lo: 0, hi: *tag, tag: true });
            }
            Value::Scalar(t)
        }
        Desc::Array(e, n) => {
            let es = e.size();
            let mut v = Vec::new();
            for i in 0..*n {
                v.push(decode_sized(e, &b[i * es..(i + 1) * es]).map_err(|x| x.shift(i * es))?);
            }
            Value::Array(v)
        }
        Desc::Struct { fields, .. } => {
            let (offs, _) = c_offsets(fields);
            let mut v = Vec::new();
            for (i, f) in fields.iter().enumerate() {
                v.push(decode_sized(f, &b[offs[i]..offs[i] + f.size()]).map_err(|x| x.shift(offs[i]))?);
            }
            Value::Struct(v)
        }
        Desc::Enum { tag, variants, .. } => {
            let t = read_uint(&b[..*tag], false);
            if t >= variants.len() as u128 {
                return Err(Reject::Content { lo: 0, hi: *tag, tag: true });
            }
            let t = t as usize;
            let off = d.enum_data_offset();
            let (offs, _) = c_offsets(&variants[t]);
            let mut v = Vec::new();
            for (i, f) in variants[t].iter().enumerate() {
                let o = off + offs[i];
                v.push(decode_sized(f, &b[o..o + f.size()]).map_err(|x| x.shift(o))?);
            }
            Value::Enum(t, v)
        }
        _ => unreachable!("unsized in decode_sized"),
    })
}

/// Encoded image with a significance mask (`true` = byte is part of the documented encoding).
#[derive(Clone, Debug, PartialEq, Eq)]
pub struct Image {
    pub bytes: Vec<u8>,
    pub mask: Vec<bool>,
    /// bytes of a sized enum's payload area that the active variant does not use
    pub inactive: Vec<bool>,
    /// extent of the value (bytes beyond it are spare)
    pub extent: usize,
}

#[derive(Clone, Debug, PartialEq, Eq)]
pub enum EncodeErr {
    /// the value does not fit in `n` bytes
    NoRoom,
    /// a length / offset is not representable in the length type
    LenOverflow,
}

/// Encode `v` into a buffer of `n` bytes (spare and padding bytes are `fill`), canonical form
/// (FlexVec: every item but the last sealed with its rounded extent, the last marked `MAX`).
pub fn encode(d: &Desc, v: &Value, n: usize, fill: u8) -> Result<Image, EncodeErr> {
    encode_opt(d, v, n, fill, false)
}

/// `zero_term`: FlexVec chains in their other documented form (every item sealed, a zero slot
/// terminates) instead of the canonical "last item marked MAX".
pub fn encode_opt(d: &Desc, v: &Value, n: usize, fill: u8, zero_term: bool) -> Result<Image, EncodeErr> {
    let mut img = Image { bytes: vec![fill; n], mask: vec![false; n], inactive: vec![false; n], extent: 0 };
    let ext = enc(d, v, &mut img, 0, n, zero_term)?;
    img.extent = ext;
    Ok(img)
}

fn put(img: &mut Image, at: usize, data: &[u8]) {
    img.bytes[at..at + data.len()].copy_from_slice(data);
    for m in &mut img.mask[at..at + data.len()] {
        *m = true;
    }
}

fn put_uint(img: &mut Image, at: usize, size: usize, v: u128, be: bool) {
    let mut tmp = vec![0u8; size];
    write_uint(&mut tmp, v, be);
    put(img, at, &tmp);
}

/// Encode at `[at .. at+avail)`; returns the extent.
fn enc(d: &Desc, v: &Value, img: &mut Image, at: usize, avail: usize, zt: bool) -> Result<usize, EncodeErr> {
    if d.is_sized() {
        if avail < d.size() {
            return Err(EncodeErr::NoRoom);
        }
        enc_sized(d, v, img, at);
        return Ok(d.size());
    }
    let a = d.align();
    let n = floor(avail, a);
    if n < d.min_size() {
        return Err(EncodeErr::NoRoom);
    }
    match (d, v) {
        (Desc::Vec { elem, len }, Value::Vec(items)) => {
            let off = d.data_offset();
            let es = elem.size();
            let cap: u128 = if es == 0 { len.max() } else { (((n - off) / es) as u128).min(len.max()) };
            if items.len() as u128 > cap {
                return Err(if items.len() as u128 > len.max() { EncodeErr::LenOverflow } else { EncodeErr::NoRoom });
            }
            put_uint(img, at, len.size, items.len() as u128, len.be);
            for (i, it) in items.iter().enumerate() {
                enc_sized(elem, it, img, at + off + i * es);
            }
            Ok(ceil(off + items.len() * es, a))
        }
        (Desc::Str { len }, Value::Str(s)) => {
            let off = len.size;
            let cap = ((n - off) as u128).min(len.max());
            if s.len() as u128 > cap {
                return Err(if s.len() as u128 > len.max() { EncodeErr::LenOverflow } else { EncodeErr::NoRoom });
            }
            put_uint(img, at, len.size, s.len() as u128, len.be);
            put(img, at + off, s);
            Ok(ceil(off + s.len(), a))
        }
        (Desc::Struct { fields, .. }, Value::Struct(vals)) => {
            let end = enc_fields(fields, vals, img, at, n, zt)?;
            Ok(ceil(end, a))
        }
        (Desc::Enum { tag, variants, .. }, Value::Enum(t, vals)) => {
            put_uint(img, at, *tag, *t as u128, false);
            let off = d.enum_data_offset();
            if n - off < Desc::fields_min(&variants[*t]) {
                return Err(EncodeErr::NoRoom);
            }
            let end = enc_fields(&variants[*t], vals, img, at + off, n - off, zt)?;
            Ok(ceil(off + end, a))
        }
        (Desc::Flex { item, len }, Value::Flex(items)) => {
            let os = d.data_offset();
            if items.is_empty() {
                put_uint(img, at, len.size, 0, len.be);
                return Ok(ceil(os, a));
            }
            let mut pos = 0usize;
            for (i, it) in items.iter().enumerate() {
                if n < pos + os {
                    return Err(EncodeErr::NoRoom);
                }
                let p = pos + os;
                let e = enc(item, it, img, at + p, n - p, zt)?;
                let e = ceil(e, a);
                if i + 1 == items.len() && !zt {
                    put_uint(img, at + pos, len.size, len.max(), len.be);
                    return Ok(p + e);
                }
                let off = (os + e) as u128;
                if off >= len.max() {
                    return Err(EncodeErr::LenOverflow);
                }
                put_uint(img, at + pos, len.size, off, len.be);
                pos += os + e;
            }
            // zero-terminated form
            if n < pos + os {
                return Err(EncodeErr::NoRoom);
            }
            put_uint(img, at + pos, len.size, 0, len.be);
            Ok(pos + os)
        }
        _ => panic!("value {:?} does not match desc {:?}", v, d),
    }
}

fn enc_fields(fields: &[Desc], vals: &[Value], img: &mut Image, at: usize, avail: usize, zt: bool) -> Result<usize, EncodeErr> {
    assert_eq!(fields.len(), vals.len());
    let (offs, _) = c_offsets(fields);
    let mut end = 0;
    for (i, f) in fields.iter().enumerate() {
        let o = offs[i];
        if f.is_sized() {
            if avail < o + f.size() {
                return Err(EncodeErr::NoRoom);
            }
            enc_sized(f, &vals[i], img, at + o);
            end = o + f.size();
        } else {
            if avail < o {
                return Err(EncodeErr::NoRoom);
            }
            end = o + enc(f, &vals[i], img, at + o, avail - o, zt)?;
        }
    }
    Ok(end)
}

fn enc_sized(d: &Desc, v: &Value, img: &mut Image, at: usize) {
    match (d, v) {
        (Desc::Unit, Value::Unit) => {}
        (Desc::Prim { size, .. }, Value::Scalar(x)) => put_uint(img, at, *size, *x, false),
        (Desc::PScalar { size, be }, Value::Scalar(x)) => put_uint(img, at, *size, *x, *be),
        (Desc::Bool, Value::Scalar(x)) => put_uint(img, at, 1, *x, false),
        (Desc::CEnum { tag, .. }, Value::Scalar(x)) => put_uint(img, at, *tag, *x, false),
        (Desc::Array(e, n), Value::Array(items)) => {
            assert_eq!(*n, items.len());
            for (i, it) in items.iter().enumerate() {
                enc_sized(e, it, img, at + i * e.size());
            }
        }
        (Desc::Struct { fields, .. }, Value::Struct(vals)) => {
            let (offs, _) = c_offsets(fields);
            for (i, f) in fields.iter().enumerate() {
                enc_sized(f, &vals[i], img, at + offs[i]);
            }
        }
        (Desc::Enum { tag, variants, .. }, Value::Enum(t, vals)) => {
            put_uint(img, at, *tag, *t as u128, false);
            let off = d.enum_data_offset();
            let (offs, _) = c_offsets(&variants[*t]);
            for (i, f) in variants[*t].iter().enumerate() {
                enc_sized(f, &vals[i], img, at + off + offs[i]);
            }
            let used_end = variants[*t].last().map(|f| off + offs[variants[*t].len() - 1] + f.size()).unwrap_or(off);
            for i in at + used_end.max(*tag)..at + d.size() {
                if !img.mask[i] {
                    img.inactive[i] = true;
                }
            }
        }
        _ => panic!("value {:?} does not match sized desc {:?}", v, d),
    }
}

/// Layout-free ("portable") serialisation: pure concatenation of tag, fields, length, elements
/// in fixed byte order. Only defined for portable descriptors; FlexVec in canonical chain form.
pub fn serialize_portable(d: &Desc, v: &Value, out: &mut Vec<u8>) {
    assert!(d.is_portable());
    match (d, v) {
        (Desc::Unit, _) => {}
        (Desc::Prim { size, .. }, Value::Scalar(x)) | (Desc::PScalar { size, be: false }, Value::Scalar(x)) => {
            for i in 0..*size {
                out.push((x >> (8 * i)) as u8);
            }
        }
        (Desc::PScalar { size, be: true }, Value::Scalar(x)) => {
            for i in (0..*size).rev() {
                out.push((x >> (8 * i)) as u8);
            }
        }
        (Desc::Bool, Value::Scalar(x)) | (Desc::CEnum { .. }, Value::Scalar(x)) => out.push(*x as u8),
        (Desc::Array(e, _), Value::Array(items)) => {
            for it in items {
                serialize_portable(e, it, out);
            }
        }
        (Desc::Struct { fields, .. }, Value::Struct(vals)) => {
            for (f, x) in fields.iter().zip(vals) {
                serialize_portable(f, x, out);
            }
        }
        (Desc::Enum { variants, .. }, Value::Enum(t, vals)) => {
            out.push(*t as u8);
            for (f, x) in variants[*t].iter().zip(vals) {
                serialize_portable(f, x, out);
            }
        }
        (Desc::Vec { elem, len }, Value::Vec(items)) => {
            ser_len(len, items.len() as u128, out);
            for it in items {
                serialize_portable(elem, it, out);
            }
        }
        (Desc::Str { len }, Value::Str(s)) => {
            ser_len(len, s.len() as u128, out);
            out.extend_from_slice(s);
        }
        (Desc::Flex { item, len }, Value::Flex(items)) => {
            if items.is_empty() {
                ser_len(len, 0, out);
            }
            for (i, it) in items.iter().enumerate() {
                let mut tmp = Vec::new();
                serialize_portable(item, it, &mut tmp);
                if i + 1 == items.len() {
                    ser_len(len, len.max(), out);
                } else {
                    ser_len(len, (len.size + tmp.len()) as u128, out);
                }
                out.extend_from_slice(&tmp);
            }
        }
        _ => panic!("mismatch"),
    }
}

fn ser_len(len: &LenTy, v: u128, out: &mut Vec<u8>) {
    let mut tmp = vec![0u8; len.size];
    write_uint(&mut tmp, v, len.be);
    out.extend_from_slice(&tmp);
}

#[cfg(test)]
mod tests {
    use super::*;

    #[test]
    fn c_layout() {
        let s = Desc::Struct {
            fields: vec![Desc::Prim { size: 1, align: 1 }, Desc::Prim { size: 2, align: 2 }, Desc::Prim { size: 4, align: 4 }],
            sized: true,
        };
        assert_eq!(s.size(), 8);
        assert_eq!(s.align(), 4);
    }

    #[test]
    fn flex_roundtrip() {
        let d = Desc::Flex {
            item: Box::new(Desc::Vec { elem: Box::new(Desc::Prim { size: 4, align: 4 }), len: LenTy::native(2) }),
            len: LenTy::native(2),
        };
        let v = Value::Flex(vec![
            Value::Vec(vec![Value::Scalar(1), Value::Scalar(2)]),
            Value::Vec(vec![]),
            Value::Vec(vec![Value::Scalar(3)]),
        ]);
        let img = encode(&d, &v, 64, 0xEE).unwrap();
        let dec = decode(&d, &img.bytes).unwrap();
        assert_eq!(dec.value, v);
        assert_eq!(dec.extent, img.extent);
        let dec2 = decode(&d, &img.bytes[..img.extent]).unwrap();
        assert_eq!(dec2.value, v);
    }
}

/// The same layout with every content constraint that does not decide the framing removed: Bool and
/// C-like enums become plain bytes, strings become byte vectors, every sized composite becomes an opaque
/// blob of its size and alignment. Tags of UNSIZED enums stay (the variant decides how many bytes follow).
/// `decode(&lenient(d), bytes)` therefore says whether a message is COMPLETE (all the bytes its own length
/// fields announce are there) regardless of whether its content is well-formed.
pub fn lenient(d: &Desc) -> Desc {
    if d.is_sized() {
        return match d {
            Desc::Unit => Desc::Unit,
            _ => Desc::Prim { size: d.size(), align: d.align() },
        };
    }
    match d {
        Desc::Vec { elem, len } => Desc::Vec { elem: Box::new(lenient(elem)), len: len.clone() },
        Desc::Str { len } => Desc::Vec { elem: Box::new(Desc::Prim { size: 1, align: 1 }), len: len.clone() },
        Desc::Flex { item, len } => Desc::Flex { item: Box::new(lenient(item)), len: len.clone() },
        Desc::Struct { fields, sized } => Desc::Struct { fields: fields.iter().map(lenient).collect(), sized: *sized },
        Desc::Enum { tag, variants, sized, default } => Desc::Enum { tag: *tag, variants: variants.iter().map(|v| v.iter().map(lenient).collect()).collect(), sized: *sized, default: *default },
        other => other.clone(),
    }
}
