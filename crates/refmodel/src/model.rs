//! The abstract model of in-place operations: which operations are enabled in a state, what each
//! must do to the content, and which bytes it may touch. A state is the geometry-aware decoding
//! (`TNode`) of the byte image; nothing here knows flatty.

use crate::ops::{Kind, Op, PathOp};
use crate::tree::{TKind, TNode};
use crate::values::{enum_values, Limits};
use crate::{ceil, encode, floor, Desc, Value};

#[derive(Clone, Debug, PartialEq)]
pub enum Expect {
    /// must succeed; new top-level content; value handed back by pop/remove (if the op returns one)
    Ok(Value, Option<Option<Value>>),
    /// must be refused, content unchanged
    Refused,
    /// may succeed (with this content) or be refused (unchanged): clause (d) of DESIGN.md §4
    Either(Value),
}

#[derive(Clone, Debug)]
pub struct Prediction {
    pub expect: Expect,
    /// byte ranges (absolute, in the top-level slice) the call may modify
    pub touch: Vec<(usize, usize)>,
    /// on refusal, bytes in this range (the pre-extent of the container) must stay as they were
    pub keep_on_refusal: (usize, usize),
    /// why an operation is expected to be refused (counted in the evidence)
    pub refusal_cause: Option<&'static str>,
}

pub fn desc_at<'a>(d: &'a Desc, t: &TNode, path: &[usize]) -> &'a Desc {
    match path.split_first() {
        None => d,
        Some((i, r)) => match (d, &t.kind) {
            (Desc::Struct { fields, .. }, TKind::Struct(f)) => desc_at(&fields[*i], &f[*i], r),
            (Desc::Enum { variants, .. }, TKind::Enum(v, f)) => desc_at(&variants[*v][*i], &f[*i], r),
            (Desc::Flex { item, .. }, TKind::Flex { items, .. }) => desc_at(item, &items[*i], r),
            _ => panic!("bad path"),
        },
    }
}

pub fn replace(top: &Value, path: &[usize], new: Value) -> Value {
    match path.split_first() {
        None => new,
        Some((i, r)) => match top {
            Value::Struct(f) => {
                let mut f = f.clone();
                f[*i] = replace(&f[*i], r, new);
                Value::Struct(f)
            }
            Value::Enum(t, f) => {
                let mut f = f.clone();
                f[*i] = replace(&f[*i], r, new);
                Value::Enum(*t, f)
            }
            Value::Flex(f) => {
                let mut f = f.clone();
                f[*i] = replace(&f[*i], r, new);
                Value::Flex(f)
            }
            o => panic!("cannot descend into {:?}", o),
        },
    }
}

/// capacities of every FlatVec / FlatString in traversal order (fields in order, items in order)
pub fn caps(t: &TNode, out: &mut Vec<usize>) {
    match &t.kind {
        TKind::Sized(_) => {}
        TKind::Vec { cap, .. } | TKind::Str { cap, .. } => out.push(*cap),
        TKind::Struct(f) | TKind::Enum(_, f) => f.iter().for_each(|x| caps(x, out)),
        TKind::Flex { items, .. } => items.iter().for_each(|x| caps(x, out)),
    }
}

fn elem_alphabet(e: &Desc) -> Vec<Value> {
    let mut v = enum_values(e, e.size(), &Limits::quick());
    v.truncate(2);
    v
}

/// Every operation the model offers in this state (tiny argument domains, simplest first).
pub fn enabled_ops(d: &Desc, t: &TNode, thorough: bool) -> Vec<PathOp> {
    let mut out = Vec::new();
    walk_ops(d, t, &mut vec![], thorough, true, &mut out);
    out
}

fn walk_ops(d: &Desc, t: &TNode, path: &mut Vec<usize>, thorough: bool, top: bool, out: &mut Vec<PathOp>) {
    let mut push = |op: Op| out.push(PathOp { path: path.clone(), op });
    match (&t.kind, d) {
        (TKind::Sized(_), _) => {
            if !top && d.size() > 0 {
                for v in elem_alphabet(d).into_iter().take(if thorough { 2 } else { 1 }) {
                    push(Op::Set(v));
                }
            }
            return;
        }
        (TKind::Vec { cap, items, .. }, Desc::Vec { elem, .. }) => {
            let al = elem_alphabet(elem);
            let len = items.len();
            if !al.is_empty() {
                let x0 = al[0].clone();
                let x1 = al[al.len() - 1].clone();
                push(Op::VecPush(x0.clone()));
                if x1 != x0 {
                    push(Op::VecPush(x1.clone()));
                }
                push(Op::VecPop);
                push(Op::VecPushSlice(vec![]));
                push(Op::VecPushSlice(vec![x1.clone()]));
                push(Op::VecPushSlice(vec![x0.clone(), x1.clone()]));
                push(Op::VecPushSlice(vec![x0.clone(), x1.clone(), x0.clone()]));
                push(Op::VecExtend(vec![x1.clone(), x0.clone(), x1.clone(), x0.clone(), x1.clone()]));
                for k in 0..=(len + 1).min(4) {
                    push(Op::VecTruncate(k));
                }
                push(Op::VecClear);
                for i in 0..len.min(3) {
                    push(Op::VecRemove(i));
                    push(Op::VecSwapRemove(i));
                    push(Op::VecSet(i, x1.clone()));
                }
                let mut ks = vec![0, (len + 1).min(*cap), *cap];
                ks.sort();
                ks.dedup();
                for k in ks {
                    if k <= 8 {
                        push(Op::VecResize(k, x0.clone()));
                    }
                }
                push(Op::VecReverse);
            }
        }
        (TKind::Str { .. }, _) => {
            for c in ['a', 'é', '€', '𝄞'] {
                push(Op::StrPush(c));
            }
            for s in ["", "a", "é", "ab€"] {
                push(Op::StrPushStr(s.to_string()));
            }
            push(Op::StrClear);
            push(Op::StrUpper);
        }
        (TKind::Flex { items, .. }, Desc::Flex { item, .. }) => {
            let a = d.align();
            let n = floor(t.avail, a);
            let os = d.data_offset();
            // item alphabet: smallest, a mid-size one, the largest that fits the whole region, one that cannot fit
            let room = n.saturating_sub(os);
            let mut fit = enum_values(item, room, &Limits::quick());
            fit.sort_by_key(|v| encode(item, v, room, 0).map(|i| i.extent).unwrap_or(usize::MAX));
            let mut al: Vec<Value> = vec![];
            if let Some(f) = fit.first() {
                al.push(f.clone());
            }
            if fit.len() > 2 {
                al.push(fit[fit.len() / 2].clone());
            }
            if let Some(l) = fit.last() {
                al.push(l.clone());
            }
            let big = enum_values(item, room + 2 * a + item.min_size().max(4), &Limits::quick());
            if let Some(b) = big.iter().rev().find(|v| encode(item, v, room, 0).is_err()) {
                al.push(b.clone());
            }
            al.dedup();
            for v in al {
                push(Op::FlexPush(v.clone(), Kind::Iter));
                if thorough {
                    push(Op::FlexPush(v, Kind::Grow));
                }
            }
            if item.default_value().is_some() {
                push(Op::FlexPushDefault);
            }
            push(Op::FlexPushFailing);
            push(Op::FlexPop);
            for k in 0..=(items.len() + 1).min(4) {
                push(Op::FlexTruncate(k));
            }
            push(Op::FlexClear);
        }
        _ => {}
    }
    // assign on every unsized node
    {
        let a = d.align();
        let room = floor(t.avail, a);
        let mut fit = enum_values(d, room, &Limits::quick());
        fit.sort_by_key(|v| encode(d, v, room, 0).map(|i| i.extent).unwrap_or(usize::MAX));
        let mut al: Vec<Value> = vec![];
        if let Some(f) = fit.first() {
            al.push(f.clone());
        }
        if fit.len() > 2 && thorough {
            al.push(fit[fit.len() / 2].clone());
        }
        if let Some(l) = fit.last() {
            al.push(l.clone());
        }
        // every variant of an enum at least once
        if let Desc::Enum { variants, .. } = d {
            for vi in 0..variants.len() {
                if let Some(v) = fit.iter().rev().find(|v| matches!(v, Value::Enum(t, _) if *t == vi)) {
                    al.push(v.clone());
                }
            }
        }
        let big = enum_values(d, room + 2 * a + 8, &Limits::quick());
        let too_big: Vec<&Value> = big.iter().filter(|v| encode(d, v, room, 0).is_err()).collect();
        if let Some(b) = too_big.first() {
            al.push((*b).clone());
        }
        if let Some(b) = too_big.last() {
            al.push((*b).clone());
        }
        if let Desc::Enum { variants, .. } = d {
            for vi in 0..variants.len() {
                if let Some(v) = too_big.iter().find(|v| matches!(v, Value::Enum(t, _) if *t == vi)) {
                    al.push((*v).clone());
                }
            }
        }
        let mut seen = std::collections::HashSet::new();
        al.retain(|v| seen.insert(v.clone()));
        for v in al {
            out.push(PathOp { path: path.clone(), op: Op::Assign(v.clone(), Kind::Iter) });
            // literal kind = flat_vec! / FromArray for short vectors: a different library emplacer
            out.push(PathOp { path: path.clone(), op: Op::Assign(v.clone(), Kind::Literal) });
            if thorough {
                out.push(PathOp { path: path.clone(), op: Op::Assign(v, Kind::Grow) });
            }
        }
    }
    // children
    match (&t.kind, d) {
        (TKind::Struct(f), Desc::Struct { fields, .. }) => {
            for (i, c) in f.iter().enumerate() {
                path.push(i);
                walk_ops(&fields[i], c, path, thorough, false, out);
                path.pop();
            }
        }
        (TKind::Enum(v, f), Desc::Enum { variants, .. }) => {
            for (i, c) in f.iter().enumerate() {
                path.push(i);
                walk_ops(&variants[*v][i], c, path, thorough, false, out);
                path.pop();
            }
        }
        (TKind::Flex { items, .. }, Desc::Flex { item, .. }) => {
            for (i, c) in items.iter().enumerate().take(3) {
                path.push(i);
                walk_ops(item, c, path, thorough, false, out);
                path.pop();
            }
        }
        _ => {}
    }
}

/// What the operation must do in the state `t` (the decoding of the current image).
pub fn predict(d: &Desc, t: &TNode, pop: &PathOp) -> Option<Prediction> {
    let node = t.at_path(&pop.path)?;
    let nd = desc_at(d, t, &pop.path);
    let top = t.value();
    let ok = |new: Value, took: Option<Option<Value>>| Expect::Ok(replace(&top, &pop.path, new), took);
    let st = node.start;
    let whole = (st, st + floor(node.avail, nd.align().max(1)));
    let keep = (st, st + node.extent);
    let mut pr = Prediction { expect: Expect::Refused, touch: vec![], keep_on_refusal: keep, refusal_cause: None };
    match (&pop.op, &node.kind, nd) {
        (Op::Set(v), TKind::Sized(_), _) => {
            pr.expect = ok(v.clone(), None);
            pr.touch = vec![(st, st + nd.size())];
        }
        (Op::Assign(v, _), _, _) => {
            let room = floor(node.avail, nd.align().max(1));
            if encode(nd, v, room, 0).is_ok() {
                pr.expect = ok(v.clone(), None);
            } else {
                pr.expect = Expect::Refused;
                // C18: a target with too little room is left unchanged. Ways of not fitting:
                pr.refusal_cause = Some(why_not_fit(nd, v, room, true));
            }
            pr.touch = vec![whole];
        }
        (op, TKind::Vec { cap, items, elem_size, data_off }, Desc::Vec { len: lt, .. }) => {
            let len = items.len();
            let es = *elem_size;
            let lenf = (st, st + lt.size);
            let slot = |i: usize, j: usize| (st + data_off + i * es, st + data_off + j * es);
            let mut it = items.clone();
            match op {
                Op::VecPush(x) => {
                    if len < *cap {
                        it.push(x.clone());
                        pr.expect = ok(Value::Vec(it), None);
                        pr.touch = vec![lenf, slot(len, len + 1)];
                    } else {
                        pr.refusal_cause = Some(if (*cap as u128) == lt.max() { "vec push: length type exhausted" } else { "vec push: exactly full" });
                    }
                }
                Op::VecPop => {
                    let took = it.pop();
                    pr.expect = ok(Value::Vec(it), Some(took));
                    // the freed slot belongs to the part being changed
                    pr.touch = vec![lenf, slot(len.saturating_sub(1), len)];
                }
                Op::VecPushSlice(xs) => {
                    if xs.len() <= cap - len {
                        it.extend(xs.iter().cloned());
                        pr.expect = ok(Value::Vec(it), None);
                        pr.touch = vec![lenf, slot(len, len + xs.len())];
                    } else {
                        pr.refusal_cause = Some("vec push_slice: does not fit");
                    }
                }
                Op::VecExtend(xs) => {
                    let k = xs.len().min(cap - len);
                    it.extend(xs.iter().take(k).cloned());
                    pr.expect = ok(Value::Vec(it), None);
                    pr.touch = vec![lenf, slot(len, len + k)];
                }
                Op::VecTruncate(k) => {
                    it.truncate(*k);
                    pr.expect = ok(Value::Vec(it), None);
                    pr.touch = vec![lenf, slot((*k).min(len), len)];
                }
                Op::VecClear => {
                    pr.expect = ok(Value::Vec(vec![]), None);
                    pr.touch = vec![lenf, slot(0, len)];
                }
                Op::VecRemove(i) if *i < len => {
                    let x = it.remove(*i);
                    pr.expect = ok(Value::Vec(it), Some(Some(x)));
                    pr.touch = vec![lenf, slot(*i, len)];
                }
                Op::VecSwapRemove(i) if *i < len => {
                    let x = it.swap_remove(*i);
                    pr.expect = ok(Value::Vec(it), Some(Some(x)));
                    pr.touch = vec![lenf, slot(*i, *i + 1), slot(len - 1, len)];
                }
                Op::VecResize(k, x) if *k <= *cap => {
                    it.resize(*k, x.clone());
                    pr.expect = ok(Value::Vec(it), None);
                    pr.touch = vec![lenf, slot(len.min(*k), (*k).max(len))];
                }
                Op::VecSet(i, x) if *i < len => {
                    it[*i] = x.clone();
                    pr.expect = ok(Value::Vec(it), None);
                    pr.touch = vec![slot(*i, *i + 1)];
                }
                Op::VecReverse => {
                    it.reverse();
                    pr.expect = ok(Value::Vec(it), None);
                    pr.touch = vec![slot(0, len)];
                }
                _ => return None,
            }
        }
        (op, TKind::Str { cap, bytes, data_off }, Desc::Str { len: lt }) => {
            let len = bytes.len();
            let lenf = (st, st + lt.size);
            let mut b = bytes.clone();
            let mut add = |s: &[u8], pr: &mut Prediction| {
                if s.len() <= cap - len {
                    b.extend_from_slice(s);
                    pr.expect = Expect::Ok(replace(&top, &pop.path, Value::Str(b.clone())), None);
                    pr.touch = vec![lenf, (st + data_off + len, st + data_off + len + s.len())];
                } else {
                    pr.refusal_cause = Some(if (*cap as u128) == lt.max() { "string push: length type exhausted" } else if *cap == len { "string push: exactly full" } else { "string push: header fits but payload does not" });
                }
            };
            match op {
                Op::StrPush(c) => {
                    let mut tmp = [0u8; 4];
                    let s = c.encode_utf8(&mut tmp).as_bytes().to_vec();
                    add(&s, &mut pr);
                }
                Op::StrPushStr(s) => add(s.as_bytes(), &mut pr),
                Op::StrClear => {
                    pr.expect = ok(Value::Str(vec![]), None);
                    pr.touch = vec![lenf, (st + data_off, st + data_off + len)];
                }
                Op::StrUpper => {
                    pr.expect = ok(Value::Str(bytes.to_ascii_uppercase()), None);
                    pr.touch = vec![(st + data_off, st + data_off + len)];
                }
                _ => return None,
            }
        }
        (op, TKind::Flex { items, slots, term, slot_size }, Desc::Flex { item, len: lt }) => {
            let a = nd.align();
            let os = *slot_size;
            let n = floor(node.avail, a);
            let end = st + n;
            let vals: Vec<Value> = items.iter().map(|x| x.value()).collect();
            // where the next slot goes
            let (q, seal_ok) = match term {
                Some(p) => (*p, true),
                None => {
                    let last = items.last().expect("MAX-terminated chain has a last item");
                    let sl = *slots.last().unwrap();
                    let off = os + ceil(last.extent, a);
                    (sl + off, (off as u128) < lt.max())
                }
            };
            let slot_rs: Vec<(usize, usize)> = slots.iter().map(|p| (*p, *p + os)).chain(term.iter().map(|p| (*p, *p + os))).collect();
            let push_pred = |v: &Value, pr: &mut Prediction| {
                let mut touch = vec![(q.min(end), end)];
                if let Some(sl) = slots.last() {
                    touch.push((*sl, *sl + os));
                }
                pr.touch = touch;
                if end < q + os {
                    pr.refusal_cause = Some("flex push: no room for the offset slot");
                    return;
                }
                if !seal_ok {
                    pr.refusal_cause = Some("flex push: previous item's offset not representable in the length type");
                    return;
                }
                let room = end - q - os;
                match encode(item, v, room, 0) {
                    Err(_) => {
                        pr.refusal_cause = Some(if room < item.min_size() { "flex push: header fits but payload does not" } else { "flex push: item content too large (nested emplacer error)" });
                    }
                    Ok(img) => {
                        let mut nv = vals.clone();
                        nv.push(v.clone());
                        let new = replace(&top, &pop.path, Value::Flex(nv));
                        if room - ceil(img.extent, a) >= os {
                            pr.expect = Expect::Ok(new, None);
                        } else {
                            pr.expect = Expect::Either(new);
                        }
                    }
                }
            };
            match op {
                Op::FlexPush(v, _) => push_pred(v, &mut pr),
                Op::FlexPushDefault => {
                    let dv = item.default_value()?;
                    push_pred(&dv, &mut pr)
                }
                Op::FlexPushFailing => {
                    pr.expect = Expect::Refused;
                    pr.refusal_cause = Some("flex push: item emplacer fails");
                    let mut touch = vec![(q.min(end), end)];
                    if let Some(sl) = slots.last() {
                        touch.push((*sl, *sl + os));
                    }
                    pr.touch = touch;
                }
                Op::FlexPop => {
                    let mut touch = slot_rs.clone();
                    if vals.is_empty() {
                        pr.expect = Expect::Refused;
                        pr.refusal_cause = Some("flex pop: empty");
                    } else {
                        let mut nv = vals.clone();
                        nv.pop();
                        pr.expect = ok(Value::Flex(nv), None);
                        touch.push((slots[vals.len() - 1], end));
                    }
                    pr.touch = touch;
                }
                Op::FlexTruncate(k) => {
                    let mut nv = vals.clone();
                    nv.truncate(*k);
                    pr.expect = ok(Value::Flex(nv), None);
                    // the removed items (from the first removed one's slot to the end) are the part being changed
                    let mut touch = slot_rs.clone();
                    if *k < vals.len() {
                        touch.push((slots[*k], end));
                    }
                    pr.touch = touch;
                }
                Op::FlexClear => {
                    pr.expect = ok(Value::Flex(vec![]), None);
                    pr.touch = vec![(st, end)];
                }
                _ => return None,
            }
        }
        _ => return None,
    }
    Some(pr)
}

/// Why `v` does not fit into `room` bytes as `d` (only called when it does not).
pub fn why_not_fit(d: &Desc, v: &Value, room: usize, top: bool) -> &'static str {
    let room = floor(room, d.align().max(1));
    let below_min = match (d, v) {
        (Desc::Enum { variants, .. }, Value::Enum(t, _)) => room < d.enum_data_offset() + Desc::fields_min(&variants[*t]),
        (Desc::Struct { fields, .. }, _) => room < Desc::fields_min(fields),
        _ => room < d.min_size(),
    };
    if below_min {
        return if top { "assign: target smaller than the replacement's minimum" } else { "assign: nested composite below its minimum" };
    }
    match (d, v) {
        (Desc::Vec { .. }, _) | (Desc::Str { .. }, _) => if top { "assign: container content too large" } else { "assign: nested container content too large" },
        (Desc::Flex { .. }, _) => if top { "assign: flex content too large" } else { "assign: nested flex content too large" },
        (Desc::Struct { fields, .. }, Value::Struct(vals)) => {
            let (offs, _) = crate::c_offsets(fields);
            let i = fields.len() - 1;
            why_not_fit(&fields[i], &vals[i], room.saturating_sub(offs[i]), false)
        }
        (Desc::Enum { variants, .. }, Value::Enum(t, vals)) => {
            let fs = &variants[*t];
            let (offs, _) = crate::c_offsets(fs);
            let i = fs.len() - 1;
            why_not_fit(&fs[i], &vals[i], room.saturating_sub(d.enum_data_offset() + offs[i]), false)
        }
        _ => "assign: does not fit",
    }
}
