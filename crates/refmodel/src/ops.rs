//! In-place operations (the alphabet of the history engines) and how they are addressed.

use crate::Value;

/// How a value is turned into an emplacer.
#[derive(Clone, Copy, Debug, PartialEq, Eq, Hash, PartialOrd, Ord)]
pub enum Kind {
    /// nested `ByValue` emplacers; containers through `FromIterator` / `FromStr`
    Iter,
    /// literal sized fields; vectors through `flat_vec!` / `FromArray<N>` (N <= 4, else FromIterator)
    Literal,
    /// containers start `Empty` and are filled with push / push_str / push(item)
    Grow,
}

pub const KINDS: [Kind; 3] = [Kind::Iter, Kind::Literal, Kind::Grow];

#[derive(Clone, Debug, PartialEq, Eq, Hash, PartialOrd, Ord)]
pub enum Op {
    // FlatVec
    VecPush(Value),
    VecPop,
    VecPushSlice(Vec<Value>),
    VecExtend(Vec<Value>),
    VecTruncate(usize),
    VecClear,
    VecRemove(usize),
    VecSwapRemove(usize),
    VecResize(usize, Value),
    VecSet(usize, Value),
    VecReverse,
    // FlatString
    StrPush(char),
    StrPushStr(String),
    StrClear,
    StrUpper,
    // FlexVec
    FlexPush(Value, Kind),
    FlexPushDefault,
    /// push with an emplacer that scribbles over the payload it is given and then fails
    FlexPushFailing,
    FlexPop,
    FlexTruncate(usize),
    FlexClear,
    // any node
    Assign(Value, Kind),
    /// plain write of a sized field / element
    Set(Value),
}

/// An operation applied to the node reached by `path` (struct field index, enum payload field
/// index, FlexVec item index).
#[derive(Clone, Debug, PartialEq, Eq, Hash, PartialOrd, Ord)]
pub struct PathOp {
    pub path: Vec<usize>,
    pub op: Op,
}

/// What the real call reported.
#[derive(Clone, Debug, PartialEq, Eq, Hash)]
pub enum OpOut {
    Done,
    /// returned value of pop / remove / swap_remove
    Took(Option<Value>),
    /// the call returned an error (kind as text, position if any)
    Refused(String),
    /// the path does not exist in the current value (harness/model disagreement)
    BadPath,
}
