//! Object-safe view of a catalog shape: the only code monomorphised per shape is this thin shim;
//! all engine logic is written once against `dyn ShapeDyn`.

use crate::node::{ByValue, Extra, FieldProbe, Node, Walk};
use core::marker::PhantomData;
use flatty::{Error, FlatWrap};
use refmodel::ops::{Kind, OpOut, PathOp};
use refmodel::{Desc, Value};

/// Everything observable about a mapped value through the safe API.
#[derive(Debug, Default)]
pub struct Observation {
    pub value: Value2,
    pub size: usize,
    pub size_of_val: usize,
    pub align_of_val: usize,
    pub self_addr: usize,
    pub as_bytes_addr: usize,
    pub as_bytes_len: usize,
    pub walk: Walk,
    pub revalidate_ok: bool,
    pub probes: Vec<FieldProbe>,
}

/// `Value` with a `Default` (Unit) so that `Observation` can derive it.
#[derive(Debug, Clone, PartialEq, Eq)]
pub struct Value2(pub Value);
impl Default for Value2 {
    fn default() -> Self {
        Value2(Value::Unit)
    }
}

pub fn observe<T: Node + ?Sized>(x: &T) -> Observation {
    let mut walk = Walk::default();
    x.walk(&mut walk);
    let ab = x.as_bytes();
    Observation {
        value: Value2(x.read()),
        size: x.size(),
        size_of_val: core::mem::size_of_val(x),
        align_of_val: core::mem::align_of_val(x),
        self_addr: x as *const T as *const u8 as usize,
        as_bytes_addr: ab.as_ptr() as usize,
        as_bytes_len: ab.len(),
        walk,
        revalidate_ok: T::validate(ab).is_ok(),
        probes: x.field_probes(),
    }
}

pub trait ShapeDyn: Send + Sync {
    fn id(&self) -> &'static str;
    fn desc(&self) -> Desc;
    fn lib_align(&self) -> usize;
    fn lib_min_size(&self) -> usize;
    fn sized_info(&self) -> Option<(usize, usize, usize)>;
    fn extra(&self) -> Extra;
    fn has_default(&self) -> bool;
    fn declared_portable(&self) -> bool;
    fn native_default_bytes(&self) -> Option<Vec<u8>>;

    fn validate(&self, bytes: &[u8]) -> Result<(), Error>;
    fn from_bytes(&self, bytes: &[u8]) -> Result<Observation, Error>;
    fn from_mut_bytes(&self, bytes: &mut [u8]) -> Result<Observation, Error>;
    fn from_wrapped_bytes(&self, bytes: &[u8]) -> Result<Observation, Error>;

    fn new_in_place(&self, bytes: &mut [u8], v: &Value, kind: Kind) -> Result<Observation, Error>;
    fn wrap_new_in_place(&self, bytes: &mut [u8], v: &Value, kind: Kind) -> Result<Observation, Error>;
    fn default_in_place(&self, bytes: &mut [u8]) -> Option<Result<Observation, Error>>;
    /// `FlatWrap::<T, AlignedBytes>::default_in_place(AlignedBytes::new(len, align))`; returns the
    /// observation through Deref and the bytes handed back by `into_inner`
    fn wrap_default_in_place(&self, len: usize, align: usize, fill: u8) -> Option<Result<(Observation, Vec<u8>), Error>>;

    /// map `bytes` with the checked API, apply the operations in order, observe the result.
    /// `Err` = the image was refused by `from_mut_bytes`.
    fn apply(&self, bytes: &mut [u8], ops: &[PathOp]) -> Result<(Vec<OpOut>, Observation), Error>;
    /// the same through `FlatWrap::<T, &mut [u8]>::from_wrapped_bytes` and `DerefMut` / `Deref` (the wrapper
    /// validates once and then maps the WHOLE slice without checks on every access)
    fn apply_wrapped(&self, bytes: &mut [u8], ops: &[PathOp]) -> Result<(Vec<OpOut>, Observation), Error>;
    /// `a == b`, `a.cmp(b)` are not available generically; compare two mapped images through
    /// the accessors instead (content equality of the safe views)
    fn same_content(&self, a: &[u8], b: &[u8]) -> Result<bool, Error>;
    /// the type's own `==` / `partial_cmp` on two mapped images (None: the type has no such impl)
    fn eq_real(&self, a: &[u8], b: &[u8]) -> Result<Option<(bool, Option<core::cmp::Ordering>)>, Error>;
}

pub struct ShapeOf<T: ?Sized> {
    id: &'static str,
    _p: PhantomData<fn() -> Box<T>>,
}
impl<T: ?Sized> ShapeOf<T> {
    pub fn new(id: &'static str) -> Self {
        ShapeOf { id, _p: PhantomData }
    }
}

impl<T: Node + ?Sized + 'static> ShapeDyn for ShapeOf<T> {
    fn id(&self) -> &'static str {
        self.id
    }
    fn desc(&self) -> Desc {
        T::desc()
    }
    fn lib_align(&self) -> usize {
        T::ALIGN
    }
    fn lib_min_size(&self) -> usize {
        T::MIN_SIZE
    }
    fn sized_info(&self) -> Option<(usize, usize, usize)> {
        T::sized_info()
    }
    fn extra(&self) -> Extra {
        T::extra()
    }
    fn has_default(&self) -> bool {
        let mut e = [0u8; 0];
        T::try_default(&mut e).is_some()
    }
    fn native_default_bytes(&self) -> Option<Vec<u8>> {
        T::native_default_bytes()
    }
    fn declared_portable(&self) -> bool {
        T::declared_portable()
    }
    fn validate(&self, bytes: &[u8]) -> Result<(), Error> {
        T::validate(bytes)
    }
    fn from_bytes(&self, bytes: &[u8]) -> Result<Observation, Error> {
        T::from_bytes(bytes).map(|x| observe(x))
    }
    fn from_mut_bytes(&self, bytes: &mut [u8]) -> Result<Observation, Error> {
        T::from_mut_bytes(bytes).map(|x| observe(&*x))
    }
    fn from_wrapped_bytes(&self, bytes: &[u8]) -> Result<Observation, Error> {
        FlatWrap::<T, &[u8]>::from_wrapped_bytes(bytes).map(|w| observe(&*w))
    }
    fn new_in_place(&self, bytes: &mut [u8], v: &Value, kind: Kind) -> Result<Observation, Error> {
        T::new_in_place(bytes, ByValue(v, kind)).map(|x| observe(&*x))
    }
    fn wrap_new_in_place(&self, bytes: &mut [u8], v: &Value, kind: Kind) -> Result<Observation, Error> {
        FlatWrap::<T, &mut [u8]>::new_in_place(bytes, ByValue(v, kind)).map(|w| observe(&*w))
    }
    fn default_in_place(&self, bytes: &mut [u8]) -> Option<Result<Observation, Error>> {
        T::try_default(bytes).map(|r| r.map(|x| observe(&*x)))
    }
    fn wrap_default_in_place(&self, len: usize, align: usize, fill: u8) -> Option<Result<(Observation, Vec<u8>), Error>> {
        let mut b = flatty::AlignedBytes::new(len, align);
        for x in b.iter_mut() {
            *x = fill;
        }
        T::try_wrap_default(b)
    }
    fn apply(&self, bytes: &mut [u8], ops: &[PathOp]) -> Result<(Vec<OpOut>, Observation), Error> {
        let x = T::from_mut_bytes(bytes)?;
        let mut outs = Vec::with_capacity(ops.len());
        for o in ops {
            outs.push(x.apply(&o.path, &o.op));
        }
        // never walk a value whose own bytes no longer validate (accessors would be UB): report that instead
        if T::validate(x.as_bytes()).is_err() {
            let mut o = Observation::default();
            o.revalidate_ok = false;
            o.walk.problems.push("the value's bytes do not validate after the call; accessors not exercised".into());
            return Ok((outs, o));
        }
        Ok((outs, observe(&*x)))
    }
    fn apply_wrapped(&self, bytes: &mut [u8], ops: &[PathOp]) -> Result<(Vec<OpOut>, Observation), Error> {
        let mut w = FlatWrap::<T, &mut [u8]>::from_wrapped_bytes(bytes)?;
        let mut outs = Vec::with_capacity(ops.len());
        for o in ops {
            outs.push((*w).apply(&o.path, &o.op));
        }
        if T::validate((*w).as_bytes()).is_err() {
            let mut o = Observation::default();
            o.revalidate_ok = false;
            o.walk.problems.push("the value's bytes do not validate after the call; accessors not exercised".into());
            return Ok((outs, o));
        }
        Ok((outs, observe(&*w)))
    }
    fn same_content(&self, a: &[u8], b: &[u8]) -> Result<bool, Error> {
        Ok(T::from_bytes(a)?.read() == T::from_bytes(b)?.read())
    }
    fn eq_real(&self, a: &[u8], b: &[u8]) -> Result<Option<(bool, Option<core::cmp::Ordering>)>, Error> {
        Ok(T::from_bytes(a)?.eq_real(T::from_bytes(b)?))
    }
}
