//! Object-safe view of a message type for the IO engines: the real blocking / async
//! `Sender` / `Receiver` of flatty-io driven over caller-supplied pipes.

use crate::dynshape::observe;
use crate::node::{ByValue, Node};
use core::future::Future;
use core::marker::PhantomData;
use core::pin::Pin;
use flatty::prelude::*;
use flatty_io::{AsyncReceiver, AsyncSender, IoBuffer, Receiver, RecvError, Sender};
use futures::io::{AsyncRead, AsyncWrite};
use refmodel::ops::Kind;
use refmodel::{Desc, Value};
use std::io::{self, Read, Write};

#[derive(Clone, Debug, PartialEq)]
pub enum SendOut {
    Ok,
    /// alloc / new_in_place refused (kind as text)
    Emplace(String),
    Io(io::ErrorKind),
}

#[derive(Clone, Debug, PartialEq)]
pub enum RecvOut {
    Msg { value: Value, size: usize, bytes: Vec<u8>, problems: Vec<String> },
    Parse(String),
    Read(io::ErrorKind),
    Closed,
}

#[derive(Clone, Copy, Debug, PartialEq)]
pub enum CapSpec {
    /// `Sender/Receiver::io(pipe, max_msg_len)`
    Io(usize),
    /// `IoBuffer::new(pipe, capacity, ALIGN)`
    Buf(usize),
}

#[derive(Clone, Copy, Debug, PartialEq)]
pub enum Next {
    /// try the same message again
    Retry,
    /// go on with the next message
    Skip,
    Stop,
}

/// what the receiving driver does with a result
#[derive(Clone, Copy, Debug, PartialEq)]
pub enum Go {
    /// drop the guard (the message is consumed) / go on after an error
    Next,
    /// `RecvGuard::retain()`: the message stays in the receiver
    Retain,
    Stop,
}

thread_local! {
    /// When set, the sending drivers first initialise the guard with this value and then assign the message to be
    /// sent THROUGH THE GUARD (`DerefMut` + `assign_in_place`): what goes out must be the final content.
    pub static EDIT_AFTER_INIT: std::cell::RefCell<Option<Value>> = const { std::cell::RefCell::new(None) };
}

pub type Fut<'a> = Pin<Box<dyn Future<Output = ()> + 'a>>;

pub trait IoShape: Send + Sync {
    fn id(&self) -> &'static str;
    fn desc(&self) -> Desc;
    fn send_blocking(&self, pipe: Box<dyn Write + '_>, cap: CapSpec, msgs: &[Value], kind: Kind, ctl: &mut dyn FnMut(usize, &SendOut) -> Next);
    fn recv_blocking(&self, pipe: Box<dyn Read + '_>, cap: CapSpec, ctl: &mut dyn FnMut(&RecvOut) -> Go);
    fn send_async<'a>(&'a self, pipe: Box<dyn AsyncWrite + Unpin + 'a>, cap: CapSpec, msgs: &'a [Value], kind: Kind, ctl: Box<dyn FnMut(usize, &SendOut) -> Next + 'a>) -> Fut<'a>;
    fn recv_async<'a>(&'a self, pipe: Box<dyn AsyncRead + Unpin + 'a>, cap: CapSpec, ctl: Box<dyn FnMut(&RecvOut) -> Go + 'a>) -> Fut<'a>;
}

pub struct IoShapeOf<M: ?Sized> {
    id: &'static str,
    _p: PhantomData<fn() -> Box<M>>,
}
impl<M: ?Sized> IoShapeOf<M> {
    pub fn new(id: &'static str) -> Self {
        IoShapeOf { id, _p: PhantomData }
    }
}

fn edit_on() -> bool {
    EDIT_AFTER_INIT.with(|e| e.borrow().is_some())
}
/// the value the guard is initialised with when the edit-after-init pass is on (None: the message itself)
fn init_guard_value(_msg: &Value) -> Option<Value> {
    EDIT_AFTER_INIT.with(|e| e.borrow().clone())
}

fn buf<M: Node + ?Sized, P>(pipe: P, cap: CapSpec) -> IoBuffer<P> {
    match cap {
        CapSpec::Io(max) => IoBuffer::new(pipe, 2 * max.max(M::MIN_SIZE), M::ALIGN),
        CapSpec::Buf(c) => IoBuffer::new(pipe, c, M::ALIGN),
    }
}

fn see<M: Node + ?Sized>(m: &M) -> RecvOut {
    // only touch the accessors when the bytes the guard exposes validate (they do for a message
    // handed out by recv; if not, that is reported instead of walking into UB)
    let ab = m.as_bytes();
    if M::validate(ab).is_err() {
        return RecvOut::Msg { value: Value::Unit, size: usize::MAX, bytes: ab.to_vec(), problems: vec!["recv handed out a message whose bytes do not validate".into()] };
    }
    let o = observe(m);
    let size = o.size;
    RecvOut::Msg { value: o.value.0, size, bytes: ab[..size.min(ab.len())].to_vec(), problems: o.walk.problems }
}

impl<M: Node + ?Sized + 'static> IoShape for IoShapeOf<M> {
    fn id(&self) -> &'static str {
        self.id
    }
    fn desc(&self) -> Desc {
        M::desc()
    }

    fn send_blocking(&self, pipe: Box<dyn Write + '_>, cap: CapSpec, msgs: &[Value], kind: Kind, ctl: &mut dyn FnMut(usize, &SendOut) -> Next) {
        // `io()` and `new(IoBuffer::new(..))` build the same thing; both spellings are exercised
        let mut sender = match cap {
            CapSpec::Io(max) => Sender::<M, _>::io(pipe, max),
            CapSpec::Buf(_) => Sender::<M, _>::new(buf::<M, _>(pipe, cap)),
        };
        let mut i = 0;
        while i < msgs.len() {
            let out = match sender.alloc() {
                Err(e) => SendOut::Io(e.kind()),
                Ok(g) => match { let first = init_guard_value(&msgs[i]).unwrap_or_else(|| msgs[i].clone()); g.new_in_place(ByValue(&first, kind)) } {
                    Err(e) => SendOut::Emplace(format!("{:?}", e.kind)),
                    Ok(mut g) => {
                        if edit_on() {
                            // the message proper is written through the initialised guard
                            let _ = (*g).apply(&[], &refmodel::ops::Op::Assign(msgs[i].clone(), kind));
                        }
                        match g.send() {
                            Ok(()) => SendOut::Ok,
                            Err(e) => SendOut::Io(e.kind()),
                        }
                    }
                },
            };
            let ok = out == SendOut::Ok;
            match ctl(i, &out) {
                Next::Stop => return,
                Next::Retry if !ok => {}
                _ => i += 1,
            }
        }
    }

    fn recv_blocking(&self, pipe: Box<dyn Read + '_>, cap: CapSpec, ctl: &mut dyn FnMut(&RecvOut) -> Go) {
        let mut receiver = match cap {
            CapSpec::Io(max) => Receiver::<M, _>::io(pipe, max),
            CapSpec::Buf(_) => Receiver::<M, _>::new(buf::<M, _>(pipe, cap)),
        };
        loop {
            let go = match receiver.recv() {
                Ok(guard) => {
                    let go = ctl(&see::<M>(&guard));
                    if go == Go::Retain {
                        guard.retain();
                    }
                    go
                }
                Err(RecvError::Parse(e)) => ctl(&RecvOut::Parse(format!("{:?}@{}", e.kind, e.pos))),
                Err(RecvError::Read(e)) => ctl(&RecvOut::Read(e.kind())),
                Err(RecvError::Closed) => ctl(&RecvOut::Closed),
            };
            if go == Go::Stop {
                return;
            }
        }
    }

    fn send_async<'a>(&'a self, pipe: Box<dyn AsyncWrite + Unpin + 'a>, cap: CapSpec, msgs: &'a [Value], kind: Kind, mut ctl: Box<dyn FnMut(usize, &SendOut) -> Next + 'a>) -> Fut<'a> {
        Box::pin(async move {
            let mut sender = match cap {
                CapSpec::Io(max) => AsyncSender::<M, _>::io(pipe, max),
                CapSpec::Buf(_) => AsyncSender::<M, _>::new(buf::<M, _>(pipe, cap)),
            };
            let mut i = 0;
            while i < msgs.len() {
                let out = match sender.alloc().await {
                    Err(e) => SendOut::Io(e.kind()),
                    Ok(g) => match { let first = init_guard_value(&msgs[i]).unwrap_or_else(|| msgs[i].clone()); g.new_in_place(ByValue(&first, kind)) } {
                        Err(e) => SendOut::Emplace(format!("{:?}", e.kind)),
                        Ok(mut g) => {
                            if edit_on() {
                                let _ = (*g).apply(&[], &refmodel::ops::Op::Assign(msgs[i].clone(), kind));
                            }
                            match g.send().await {
                                Ok(()) => SendOut::Ok,
                                Err(e) => SendOut::Io(e.kind()),
                            }
                        }
                    },
                };
                let ok = out == SendOut::Ok;
                match ctl(i, &out) {
                    Next::Stop => return,
                    Next::Retry if !ok => {}
                    _ => i += 1,
                }
            }
        })
    }

    fn recv_async<'a>(&'a self, pipe: Box<dyn AsyncRead + Unpin + 'a>, cap: CapSpec, mut ctl: Box<dyn FnMut(&RecvOut) -> Go + 'a>) -> Fut<'a> {
        Box::pin(async move {
            let mut receiver = match cap {
                CapSpec::Io(max) => AsyncReceiver::<M, _>::io(pipe, max),
                CapSpec::Buf(_) => AsyncReceiver::<M, _>::new(buf::<M, _>(pipe, cap)),
            };
            loop {
                let go = match receiver.recv().await {
                    Ok(guard) => {
                        let go = ctl(&see::<M>(&guard));
                        if go == Go::Retain {
                            guard.retain();
                        }
                        go
                    }
                    Err(RecvError::Parse(e)) => ctl(&RecvOut::Parse(format!("{:?}@{}", e.kind, e.pos))),
                    Err(RecvError::Read(e)) => ctl(&RecvOut::Read(e.kind())),
                    Err(RecvError::Closed) => ctl(&RecvOut::Closed),
                };
                if go == Go::Stop {
                    return;
                }
            }
        })
    }
}
