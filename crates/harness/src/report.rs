//! Case journal + crash handlers (a SIGSEGV / abort / hang inside a case becomes a record the
//! driver can turn into a replay), panic capture, and the JSON report every engine writes.

use serde_json::{json, Map, Value as J};
use std::cell::Cell;
use std::collections::BTreeMap;
use std::panic::{self, AssertUnwindSafe};
use std::sync::atomic::{AtomicBool, AtomicU64, AtomicUsize, Ordering};
use std::sync::Mutex;
use std::time::Instant;

const SLOTS: usize = 64;
const SLOT_BYTES: usize = 768;

struct SlotMem {
    len: AtomicUsize,
    active: AtomicBool,
    progress: AtomicU64,
    data: std::cell::UnsafeCell<[u8; SLOT_BYTES]>,
}
unsafe impl Sync for SlotMem {}

#[allow(clippy::declare_interior_mutable_const)]
const EMPTY: SlotMem = SlotMem {
    len: AtomicUsize::new(0),
    active: AtomicBool::new(false),
    progress: AtomicU64::new(0),
    data: std::cell::UnsafeCell::new([0; SLOT_BYTES]),
};
static JOURNAL: [SlotMem; SLOTS] = [EMPTY; SLOTS];
static NEXT_SLOT: AtomicUsize = AtomicUsize::new(0);

thread_local! {
    static MY_SLOT: Cell<usize> = const { Cell::new(usize::MAX) };
    static LAST_PANIC: std::cell::RefCell<Option<String>> = const { std::cell::RefCell::new(None) };
    static IN_CATCH: Cell<bool> = const { Cell::new(false) };
}

fn my_slot() -> usize {
    MY_SLOT.with(|s| {
        if s.get() == usize::MAX {
            s.set(NEXT_SLOT.fetch_add(1, Ordering::Relaxed) % SLOTS);
        }
        s.get()
    })
}

/// Record the case the calling thread is about to execute (short ASCII text).
pub fn journal(text: &[u8]) {
    let i = my_slot();
    let s = &JOURNAL[i];
    let n = text.len().min(SLOT_BYTES);
    unsafe {
        (&mut *s.data.get())[..n].copy_from_slice(&text[..n]);
    }
    s.len.store(n, Ordering::Relaxed);
    s.active.store(true, Ordering::Relaxed);
    s.progress.fetch_add(1, Ordering::Relaxed);
}
/// Signal progress to the hang watchdog without changing the recorded case.
pub fn tick() {
    let i = my_slot();
    JOURNAL[i].progress.fetch_add(1, Ordering::Relaxed);
}
pub fn journal_idle() {
    let i = my_slot();
    JOURNAL[i].active.store(false, Ordering::Relaxed);
}

unsafe fn raw_write(b: &[u8]) {
    libc::write(1, b.as_ptr() as *const _, b.len());
}

unsafe fn dump_slot(prefix: &[u8], i: usize) {
    raw_write(prefix);
    if i < SLOTS {
        let s = &JOURNAL[i];
        let n = s.len.load(Ordering::Relaxed);
        raw_write(&(&*s.data.get())[..n]);
    }
    raw_write(b"\n");
}

extern "C" fn on_signal(sig: libc::c_int) {
    unsafe {
        let i = MY_SLOT.with(|s| s.get());
        let mut p = *b"CRASH sig=00 case=";
        p[10] = b'0' + ((sig / 10) % 10) as u8;
        p[11] = b'0' + (sig % 10) as u8;
        dump_slot(&p, i);
        libc::_exit(70);
    }
}

/// Install crash handlers, a quiet panic hook and a hang watchdog (`hang_secs` without progress
/// in an active case).
pub fn install(hang_secs: u64) {
    unsafe {
        // alternate stack so that stack overflows are reported too
        let sz = 1 << 16;
        let stack = libc::mmap(core::ptr::null_mut(), sz, libc::PROT_READ | libc::PROT_WRITE, libc::MAP_PRIVATE | libc::MAP_ANONYMOUS, -1, 0);
        let ss = libc::stack_t { ss_sp: stack, ss_flags: 0, ss_size: sz };
        libc::sigaltstack(&ss, core::ptr::null_mut());
        for sig in [libc::SIGSEGV, libc::SIGBUS, libc::SIGABRT, libc::SIGILL, libc::SIGFPE] {
            let mut sa: libc::sigaction = core::mem::zeroed();
            sa.sa_sigaction = on_signal as *const () as usize;
            sa.sa_flags = libc::SA_ONSTACK;
            libc::sigaction(sig, &sa, core::ptr::null_mut());
        }
    }
    panic::set_hook(Box::new(|info| {
        let msg = if let Some(s) = info.payload().downcast_ref::<&str>() {
            s.to_string()
        } else if let Some(s) = info.payload().downcast_ref::<String>() {
            s.clone()
        } else {
            "<non-string panic>".to_string()
        };
        let loc = info.location().map(|l| format!("{}:{}", l.file(), l.line())).unwrap_or_default();
        if !IN_CATCH.with(|c| c.get()) {
            eprintln!("MACHINERY PANIC (outside a case): {} at {}", msg, loc);
        }
        LAST_PANIC.with(|p| *p.borrow_mut() = Some(format!("{} at {}", msg, loc)));
    }));
    if hang_secs > 0 {
        std::thread::spawn(move || {
            let mut last = [0u64; SLOTS];
            let mut stale = [0u64; SLOTS];
            loop {
                std::thread::sleep(std::time::Duration::from_secs(1));
                for i in 0..SLOTS {
                    let s = &JOURNAL[i];
                    let p = s.progress.load(Ordering::Relaxed);
                    if s.active.load(Ordering::Relaxed) && p == last[i] {
                        stale[i] += 1;
                        if stale[i] >= hang_secs {
                            unsafe {
                                dump_slot(b"HANG case=", i);
                                libc::_exit(71);
                            }
                        }
                    } else {
                        stale[i] = 0;
                    }
                    last[i] = p;
                }
            }
        });
    }
}

/// Run `f`, turning an unwinding panic into `Err(message at file:line)`.
pub fn catch<R>(f: impl FnOnce() -> R) -> Result<R, String> {
    LAST_PANIC.with(|p| *p.borrow_mut() = None);
    let prev = IN_CATCH.with(|c| c.replace(true));
    let r = panic::catch_unwind(AssertUnwindSafe(f));
    IN_CATCH.with(|c| c.set(prev));
    match r {
        Ok(r) => Ok(r),
        Err(_) => Err(LAST_PANIC.with(|p| p.borrow_mut().take()).unwrap_or_else(|| "panic".into())),
    }
}

pub fn hex(b: &[u8]) -> String {
    let mut s = String::with_capacity(b.len() * 2);
    for x in b {
        s.push_str(&format!("{:02x}", x));
    }
    s
}
pub fn unhex(s: &str) -> Vec<u8> {
    (0..s.len() / 2).map(|i| u8::from_str_radix(&s[2 * i..2 * i + 2], 16).unwrap()).collect()
}

/// One violation class of one property (first example kept, all counted).
#[derive(Debug, Clone)]
pub struct Violation {
    pub key: String,
    pub detail: String,
    pub replay: J,
    pub count: u64,
}

/// Per-property accumulator.
#[derive(Default, Debug)]
pub struct PropAcc {
    pub evaluations: u64,
    pub counters: BTreeMap<String, u64>,
    pub distinct: std::collections::BTreeSet<String>,
    pub samples: Vec<J>,
    pub violations: BTreeMap<String, Violation>,
    pub states: u64,
    pub transitions: u64,
    pub notes: Vec<String>,
    pub exhaustive: bool,
    pub caps: Vec<String>,
}

impl PropAcc {
    pub fn count(&mut self, name: &str, n: u64) {
        *self.counters.entry(name.to_string()).or_insert(0) += n;
    }
    pub fn merge(&mut self, o: PropAcc) {
        self.evaluations += o.evaluations;
        for (k, v) in o.counters {
            *self.counters.entry(k).or_insert(0) += v;
        }
        self.distinct.extend(o.distinct);
        for s in o.samples {
            if self.samples.len() < 6 {
                self.samples.push(s);
            }
        }
        for (k, v) in o.violations {
            match self.violations.get_mut(&k) {
                Some(e) => e.count += v.count,
                None => {
                    self.violations.insert(k, v);
                }
            }
        }
        self.states += o.states;
        self.transitions += o.transitions;
        self.notes.extend(o.notes);
        self.caps.extend(o.caps);
    }
    pub fn violate(&mut self, key: String, detail: String, replay: J) {
        match self.violations.get_mut(&key) {
            Some(e) => e.count += 1,
            None => {
                if self.violations.len() < 400 {
                    self.violations.insert(key.clone(), Violation { key, detail, replay, count: 1 });
                }
            }
        }
    }
    pub fn sample(&mut self, s: J) {
        if self.samples.len() < 6 {
            self.samples.push(s);
        }
    }
}

/// The report an engine writes: per property accumulators.
pub struct Report {
    pub engine: String,
    pub tier: String,
    pub start: Instant,
    pub props: Mutex<BTreeMap<String, PropAcc>>,
    pub meta: Mutex<Map<String, J>>,
}

impl Report {
    pub fn new(engine: &str, tier: &str) -> Self {
        Report { engine: engine.into(), tier: tier.into(), start: Instant::now(), props: Mutex::new(BTreeMap::new()), meta: Mutex::new(Map::new()) }
    }
    pub fn merge(&self, prop: &str, acc: PropAcc) {
        let mut g = self.props.lock().unwrap();
        g.entry(prop.to_string()).or_default().merge(acc);
    }
    pub fn set_meta(&self, k: &str, v: J) {
        self.meta.lock().unwrap().insert(k.into(), v);
    }
    pub fn to_json(&self) -> J {
        let g = self.props.lock().unwrap();
        let mut props = Map::new();
        for (id, a) in g.iter() {
            let viol: Vec<J> = a
                .violations
                .values()
                .map(|v| json!({"key": v.key, "detail": v.detail, "replay": v.replay, "count": v.count}))
                .collect();
            props.insert(
                id.clone(),
                json!({
                    "evaluations": a.evaluations,
                    "distinct_nontrivial": a.distinct.len(),
                    "counters": a.counters,
                    "samples": a.samples,
                    "violations": viol,
                    "states": a.states,
                    "transitions": a.transitions,
                    "notes": a.notes,
                    "exhaustive": a.exhaustive,
                    "caps": a.caps,
                }),
            );
        }
        json!({
            "engine": self.engine,
            "tier": self.tier,
            "wall_s": self.start.elapsed().as_secs_f64(),
            "meta": J::Object(self.meta.lock().unwrap().clone()),
            "props": J::Object(props),
        })
    }
    pub fn write(&self, path: &str) {
        let j = self.to_json();
        std::fs::write(path, serde_json::to_string_pretty(&j).unwrap()).expect("write report");
    }
}

/// Command line common to all engines.
pub struct Args {
    pub tier: String,
    pub out: String,
    pub props: Vec<String>,
    pub replay: Option<String>,
    pub threads: usize,
    pub only: Option<String>,
    pub rest: Vec<String>,
}

pub fn parse_args() -> Args {
    let mut a = Args { tier: "quick".into(), out: "/dev/null".into(), props: vec![], replay: None, threads: 16, only: None, rest: vec![] };
    let mut it = std::env::args().skip(1);
    while let Some(x) = it.next() {
        match x.as_str() {
            "--tier" => a.tier = it.next().unwrap(),
            "--out" => a.out = it.next().unwrap(),
            "--props" => a.props = it.next().unwrap().split(',').map(|s| s.to_string()).collect(),
            "--replay" => a.replay = it.next(),
            "--threads" => a.threads = it.next().unwrap().parse().unwrap(),
            "--only" => a.only = it.next(),
            _ => a.rest.push(x),
        }
    }
    a
}

impl Args {
    pub fn wants(&self, p: &str) -> bool {
        self.props.is_empty() || self.props.iter().any(|x| x == p)
    }
    pub fn thorough(&self) -> bool {
        self.tier == "thorough"
    }
}
