pub mod dynshape;
pub mod guard;
pub mod ioshape;
pub mod node;
pub mod report;
pub use dynshape::*;
pub use ioshape::*;
pub use node::*;
