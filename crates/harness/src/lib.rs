pub mod dynshape;
pub mod guard;
pub mod node;
pub mod report;
pub use dynshape::*;
pub use node::*;
