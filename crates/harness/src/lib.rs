pub mod node;
pub mod guard;
pub mod report;
pub use node::*;

/// Generic dispatch over the catalog.
pub trait Visitor {
    fn visit<T: Node + ?Sized + 'static>(&mut self, id: &'static str);
}
