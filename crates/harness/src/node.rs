//! `Node`: the thin, mechanical binding between a real flatty type and the reference model.
//! Generic impls for leaves and containers live here; `#[flat]` items get generated impls.

use flatty::{
    flex, portable::{be, le, Bool}, prelude::*, string, vec, Emplacer, Error, Flat, FlatString, FlatVec, FlexVec,
};
use flatty::error::ErrorKind;
use flatty::vec::Length;
use refmodel::{
    ops::{Kind, Op, OpOut},
    Desc, LenTy, Value,
};

/// Pointer ranges of everything reachable through safe accessors + consistency problems.
#[derive(Default, Debug)]
pub struct Walk {
    pub ranges: Vec<(usize, usize, &'static str)>,
    pub problems: Vec<String>,
    /// capacity() of every FlatVec / FlatString in traversal order
    pub caps: Vec<usize>,
}
impl Walk {
    pub fn obj<T: ?Sized>(&mut self, x: &T, what: &'static str) {
        self.ranges.push((x as *const T as *const u8 as usize, core::mem::size_of_val(x), what));
    }
    pub fn bytes(&mut self, b: &[u8], what: &'static str) {
        self.ranges.push((b.as_ptr() as usize, b.len(), what));
    }
}

/// Constants only `#[flat]` items have (read from the item's private inherent consts).
#[derive(Default, Debug, Clone)]
pub struct Extra {
    pub data_offset: Option<usize>,
    pub last_field_offset: Option<usize>,
    pub data_min_sizes: Vec<usize>,
}

/// address, size_of_val, align_of_val of one direct field
#[derive(Debug, Clone, Copy, PartialEq, Eq)]
pub struct FieldProbe {
    pub addr: usize,
    pub size: usize,
    pub align: usize,
}
pub fn probe<T: ?Sized>(x: &T) -> FieldProbe {
    FieldProbe { addr: x as *const T as *const u8 as usize, size: core::mem::size_of_val(x), align: core::mem::align_of_val(x) }
}

pub fn refused(e: &Error) -> OpOut {
    OpOut::Refused(format!("{:?}@{}", e.kind, e.pos))
}

pub trait Node: Flat {
    fn desc() -> Desc;
    fn read(&self) -> Value;
    /// # Safety
    /// same contract as `Emplacer::emplace_unchecked`
    unsafe fn emplace_value_unchecked<'a>(bytes: &'a mut [u8], v: &Value, kind: Kind) -> Result<&'a mut Self, Error>;
    fn walk(&self, w: &mut Walk);
    fn apply(&mut self, path: &[usize], op: &Op) -> OpOut;
    fn extra() -> Extra {
        Extra::default()
    }
    /// probes of the direct fields of a struct / of the active variant of an enum; for containers
    /// the data area
    fn field_probes(&self) -> Vec<FieldProbe> {
        vec![]
    }
    /// `default_in_place`, if the type has `FlatDefault`
    fn try_default(_bytes: &mut [u8]) -> Option<Result<&mut Self, Error>> {
        None
    }
    /// `FlatWrap::default_in_place` over an owned, aligned buffer, observed through `Deref`,
    /// then modified through `DerefMut` (no-op edit) and unwrapped again
    fn try_wrap_default(_bytes: flatty::AlignedBytes) -> Option<Result<(crate::dynshape::Observation, Vec<u8>), Error>> {
        None
    }
    /// bytes of `Default::default()` for sized types with a `Default` impl
    fn native_default_bytes() -> Option<Vec<u8>> {
        None
    }
    /// does the real type implement `Portable` (by declaration)?
    fn declared_portable() -> bool {
        false
    }
    /// the type's own `==` and `partial_cmp` against another mapped value, where it has them
    fn eq_real(&self, _other: &Self) -> Option<(bool, Option<core::cmp::Ordering>)> {
        None
    }
    /// (FlatSized::SIZE, size_of, align_of) for sized types
    fn sized_info() -> Option<(usize, usize, usize)> {
        None
    }
    /// the real `FlexVec::push_default`, for item types that are `FlatDefault`
    fn flex_push_default<L: LenNode>(_v: &mut FlexVec<Self, L>) -> Option<Result<(), Error>> {
        None
    }
}

#[macro_export]
macro_rules! impl_sized_info {
    () => {
        fn sized_info() -> Option<(usize, usize, usize)> {
            Some((<Self as ::flatty::FlatSized>::SIZE, ::core::mem::size_of::<Self>(), ::core::mem::align_of::<Self>()))
        }
    };
}

#[macro_export]
macro_rules! impl_flex_push_default {
    () => {
        fn try_wrap_default(bytes: ::flatty::AlignedBytes) -> Option<Result<($crate::dynshape::Observation, Vec<u8>), ::flatty::Error>> {
            Some(::flatty::FlatWrap::<Self, ::flatty::AlignedBytes>::default_in_place(bytes).map(|mut w| {
                let o = $crate::dynshape::observe(&*w);
                let _: &mut Self = &mut *w;
                let inner = w.into_inner();
                (o, inner.to_vec())
            }))
        }
        fn flex_push_default<LL: $crate::node::LenNode>(v: &mut ::flatty::FlexVec<Self, LL>) -> Option<Result<(), ::flatty::Error>> {
            Some(v.push_default().map(|_| ()))
        }
    };
}

pub trait SizedNode: Node + Sized + Clone + PartialEq + PartialOrd {
    fn from_value(v: &Value) -> Self;
}

pub fn sized_bytes<T: SizedNode>(x: &T) -> Vec<u8> {
    x.as_bytes().to_vec()
}

/// Universal emplacer: builds the real emplacer for `T` from a model value.
pub struct ByValue<'v>(pub &'v Value, pub Kind);

unsafe impl<'v, T: Node + ?Sized> Emplacer<T> for ByValue<'v> {
    unsafe fn emplace_unchecked(self, bytes: &mut [u8]) -> Result<&mut T, Error> {
        T::emplace_value_unchecked(bytes, self.0, self.1)
    }
}

/// An emplacer that scribbles over what it is given and then fails (it is entitled to).
pub struct Failing;
unsafe impl<T: Node + ?Sized> Emplacer<T> for Failing {
    unsafe fn emplace_unchecked(self, bytes: &mut [u8]) -> Result<&mut T, Error> {
        for b in bytes.iter_mut() {
            *b = 0xA5;
        }
        Err(Error { kind: ErrorKind::Other, pos: 0 })
    }
}

pub fn scalar(v: &Value) -> u128 {
    match v {
        Value::Scalar(x) => *x,
        o => panic!("expected scalar, got {:?}", o),
    }
}
pub fn fields(v: &Value) -> &[Value] {
    match v {
        Value::Struct(f) => f,
        o => panic!("expected struct, got {:?}", o),
    }
}
pub fn variant(v: &Value) -> (usize, &[Value]) {
    match v {
        Value::Enum(t, f) => (*t, f),
        o => panic!("expected enum, got {:?}", o),
    }
}

/// Self-op on a sized node: plain assignment.
pub fn sized_self_op<T: SizedNode>(this: &mut T, path: &[usize], op: &Op) -> OpOut {
    if !path.is_empty() {
        return OpOut::BadPath;
    }
    match op {
        Op::Set(v) => {
            *this = T::from_value(v);
            OpOut::Done
        }
        Op::Assign(v, k) => match this.assign_in_place(ByValue(v, *k)) {
            Ok(_) => OpOut::Done,
            Err(e) => refused(&e),
        },
        _ => OpOut::BadPath,
    }
}

/// Self-op on an unsized composite: `assign_in_place`.
pub fn unsized_self_op<T: Node + ?Sized>(this: &mut T, op: &Op) -> OpOut {
    match op {
        Op::Assign(v, k) => match this.assign_in_place(ByValue(v, *k)) {
            Ok(_) => OpOut::Done,
            Err(e) => refused(&e),
        },
        _ => OpOut::BadPath,
    }
}

macro_rules! prim_node {
    ($($t:ty => $u:ty),* $(,)?) => {$(
        impl Node for $t {
            fn desc() -> Desc { Desc::Prim { size: core::mem::size_of::<$t>(), align: core::mem::align_of::<$t>() } }
            fn declared_portable() -> bool { core::mem::size_of::<$t>() == 1 }
            fn read(&self) -> Value { Value::Scalar(<$u>::from_ne_bytes(self.to_ne_bytes()) as u128) }
            unsafe fn emplace_value_unchecked<'a>(bytes: &'a mut [u8], v: &Value, _k: Kind) -> Result<&'a mut Self, Error> {
                <$t as SizedNode>::from_value(v).emplace_unchecked(bytes)
            }
            fn walk(&self, w: &mut Walk) { w.obj(self, "prim"); }
            fn apply(&mut self, path: &[usize], op: &Op) -> OpOut { sized_self_op(self, path, op) }
            crate::impl_sized_info!();
            fn try_default(bytes: &mut [u8]) -> Option<Result<&mut Self, Error>> { Some(Self::default_in_place(bytes)) }
            crate::impl_flex_push_default!();
            fn native_default_bytes() -> Option<Vec<u8>> { Some(<$t>::default().to_ne_bytes().to_vec()) }
        }
        impl SizedNode for $t {
            fn from_value(v: &Value) -> Self { <$t>::from_ne_bytes((scalar(v) as $u).to_ne_bytes()) }
        }
    )*};
}
prim_node!(u8 => u8, u16 => u16, u32 => u32, u64 => u64, u128 => u128, usize => usize,
           i8 => u8, i16 => u16, i32 => u32, i64 => u64, i128 => u128, isize => usize,
           f32 => u32, f64 => u64);

impl Node for () {
    fn desc() -> Desc {
        Desc::Unit
    }
    fn declared_portable() -> bool {
        true
    }
    fn read(&self) -> Value {
        Value::Unit
    }
    unsafe fn emplace_value_unchecked<'a>(bytes: &'a mut [u8], _v: &Value, _k: Kind) -> Result<&'a mut Self, Error> {
        ().emplace_unchecked(bytes)
    }
    fn walk(&self, w: &mut Walk) {
        w.obj(self, "unit");
    }
    fn apply(&mut self, path: &[usize], op: &Op) -> OpOut {
        sized_self_op(self, path, op)
    }
    crate::impl_sized_info!();
    fn try_default(bytes: &mut [u8]) -> Option<Result<&mut Self, Error>> {
        Some(Self::default_in_place(bytes))
    }
    crate::impl_flex_push_default!();
    fn native_default_bytes() -> Option<Vec<u8>> {
        Some(vec![])
    }
}
impl SizedNode for () {
    fn from_value(_v: &Value) -> Self {}
}

impl Node for Bool {
    fn desc() -> Desc {
        Desc::Bool
    }
    fn declared_portable() -> bool {
        true
    }
    fn read(&self) -> Value {
        Value::Scalar(bool::from(*self) as u128)
    }
    unsafe fn emplace_value_unchecked<'a>(bytes: &'a mut [u8], v: &Value, _k: Kind) -> Result<&'a mut Self, Error> {
        Self::from_value(v).emplace_unchecked(bytes)
    }
    fn walk(&self, w: &mut Walk) {
        w.obj(self, "bool");
        let raw = unsafe { *(self as *const Bool as *const u8) };
        if raw > 1 {
            w.problems.push(format!("Bool holds raw byte {}", raw));
        }
    }
    fn apply(&mut self, path: &[usize], op: &Op) -> OpOut {
        sized_self_op(self, path, op)
    }
    crate::impl_sized_info!();
    fn try_default(bytes: &mut [u8]) -> Option<Result<&mut Self, Error>> {
        Some(Self::default_in_place(bytes))
    }
    crate::impl_flex_push_default!();
    fn native_default_bytes() -> Option<Vec<u8>> {
        Some(vec![bool::from(Bool::default()) as u8])
    }
}
impl SizedNode for Bool {
    fn from_value(v: &Value) -> Self {
        Bool::from(scalar(v) != 0)
    }
}

macro_rules! pscalar_node {
    ($($t:ty, $n:expr, $be:expr);* $(;)?) => {$(
        impl Node for $t {
            fn desc() -> Desc { Desc::PScalar { size: $n, be: $be } }
            fn declared_portable() -> bool { true }
            fn read(&self) -> Value { Value::Scalar(refmodel::read_uint(&self.to_bytes(), $be)) }
            unsafe fn emplace_value_unchecked<'a>(bytes: &'a mut [u8], v: &Value, _k: Kind) -> Result<&'a mut Self, Error> {
                <$t as SizedNode>::from_value(v).emplace_unchecked(bytes)
            }
            fn walk(&self, w: &mut Walk) { w.obj(self, "pscalar"); }
            fn apply(&mut self, path: &[usize], op: &Op) -> OpOut { sized_self_op(self, path, op) }
            crate::impl_sized_info!();
            fn try_default(bytes: &mut [u8]) -> Option<Result<&mut Self, Error>> { Some(Self::default_in_place(bytes)) }
            crate::impl_flex_push_default!();
            fn native_default_bytes() -> Option<Vec<u8>> { Some(<$t>::default().to_bytes().to_vec()) }
        }
        impl SizedNode for $t {
            fn from_value(v: &Value) -> Self {
                let mut b = [0u8; $n];
                refmodel::write_uint(&mut b, scalar(v), $be);
                <$t>::from_bytes(b)
            }
        }
    )*};
}
pscalar_node!(
    le::U16, 2, false; le::U32, 4, false; le::U64, 8, false;
    le::I16, 2, false; le::I32, 4, false; le::I64, 8, false;
    be::U16, 2, true; be::U32, 4, true; be::U64, 8, true;
    be::I16, 2, true; be::I32, 4, true; be::I64, 8, true;
    le::F32, 4, false; le::F64, 8, false; be::F32, 4, true; be::F64, 8, true;
);

impl<T: SizedNode, const N: usize> Node for [T; N] {
    fn desc() -> Desc {
        Desc::Array(Box::new(T::desc()), N)
    }
    fn declared_portable() -> bool {
        T::declared_portable()
    }
    fn read(&self) -> Value {
        Value::Array(self.iter().map(|x| x.read()).collect())
    }
    unsafe fn emplace_value_unchecked<'a>(bytes: &'a mut [u8], v: &Value, _k: Kind) -> Result<&'a mut Self, Error> {
        Self::from_value(v).emplace_unchecked(bytes)
    }
    fn walk(&self, w: &mut Walk) {
        w.obj(self, "array");
        for x in self.iter() {
            x.walk(w);
        }
    }
    fn apply(&mut self, path: &[usize], op: &Op) -> OpOut {
        sized_self_op(self, path, op)
    }
    crate::impl_sized_info!();
}
impl<T: SizedNode, const N: usize> SizedNode for [T; N] {
    fn from_value(v: &Value) -> Self {
        match v {
            Value::Array(items) => {
                assert_eq!(items.len(), N);
                core::array::from_fn(|i| T::from_value(&items[i]))
            }
            o => panic!("expected array, got {:?}", o),
        }
    }
}

/// Length / offset types.
pub trait LenNode: Flat + Length {
    fn len_ty() -> LenTy;
}
macro_rules! len_native {
    ($($t:ty),*) => {$( impl LenNode for $t { fn len_ty() -> LenTy { LenTy::native(core::mem::size_of::<$t>()) } } )*};
}
len_native!(u8, u16, u32, u64, usize);
macro_rules! len_portable {
    ($($t:ty, $n:expr, $be:expr);* $(;)?) => {$( impl LenNode for $t { fn len_ty() -> LenTy { LenTy::portable($n, $be) } } )*};
}
len_portable!(le::U16, 2, false; le::U32, 4, false; le::U64, 8, false; be::U16, 2, true; be::U32, 4, true; be::U64, 8, true);

/// Iterator adaptor with a loose (but legal) upper `size_hint` bound.
struct Hinted<I>(I, bool);
impl<I: Iterator> Iterator for Hinted<I> {
    type Item = I::Item;
    fn next(&mut self) -> Option<I::Item> {
        self.0.next()
    }
    fn size_hint(&self) -> (usize, Option<usize>) {
        let (lo, hi) = self.0.size_hint();
        if self.1 {
            (0, hi.map(|h| h.saturating_add(1000)))
        } else {
            (lo, hi)
        }
    }
}

fn vec_items(v: &Value) -> &[Value] {
    match v {
        Value::Vec(i) => i,
        o => panic!("expected vec, got {:?}", o),
    }
}

impl<T: SizedNode, L: LenNode> Node for FlatVec<T, L> {
    fn desc() -> Desc {
        Desc::Vec { elem: Box::new(T::desc()), len: L::len_ty() }
    }
    fn declared_portable() -> bool {
        T::declared_portable() && (L::len_ty().align == 1)
    }
    fn read(&self) -> Value {
        Value::Vec(self.as_slice().iter().map(|x| x.read()).collect())
    }
    unsafe fn emplace_value_unchecked<'a>(bytes: &'a mut [u8], v: &Value, kind: Kind) -> Result<&'a mut Self, Error> {
        let items = vec_items(v);
        match kind {
            // an iterator only promises its LOWER size_hint bound: every other length is offered with an upper bound far
            // above the real count (what `filter` / `take_while` adaptors report), the rest with the exact one
            Kind::Iter => vec::FromIterator(Hinted(items.iter().map(T::from_value), items.len() % 2 == 1)).emplace_unchecked(bytes),
            Kind::Literal => match items.len() {
                0 => {
                    let e: vec::FromArray<T, 0> = flatty::flat_vec![];
                    e.emplace_unchecked(bytes)
                }
                1 => flatty::flat_vec![T::from_value(&items[0])].emplace_unchecked(bytes),
                2 => flatty::flat_vec![T::from_value(&items[0]), T::from_value(&items[1])].emplace_unchecked(bytes),
                3 => vec::FromArray::<T, 3>(core::array::from_fn(|i| T::from_value(&items[i]))).emplace_unchecked(bytes),
                4 => vec::FromArray::<T, 4>(core::array::from_fn(|i| T::from_value(&items[i]))).emplace_unchecked(bytes),
                // arrays around the maximum of a one-byte length type: more items than the length type can count
                255 => vec::FromArray::<T, 255>(core::array::from_fn(|i| T::from_value(&items[i]))).emplace_unchecked(bytes),
                256 => vec::FromArray::<T, 256>(core::array::from_fn(|i| T::from_value(&items[i]))).emplace_unchecked(bytes),
                257 => vec::FromArray::<T, 257>(core::array::from_fn(|i| T::from_value(&items[i]))).emplace_unchecked(bytes),
                _ => vec::FromIterator(items.iter().map(T::from_value)).emplace_unchecked(bytes),
            },
            Kind::Grow => {
                // a user-written emplacer: like the library's own ones it first makes the target a valid
                // (empty) vector, so that a failure never leaves stale bytes behind a new tag
                let this = <vec::Empty as Emplacer<Self>>::emplace_unchecked(vec::Empty, bytes)?;
                if this.capacity() < items.len() {
                    return Err(Error { kind: ErrorKind::InsufficientSize, pos: 0 });
                }
                for it in items {
                    if this.push(T::from_value(it)).is_err() {
                        return Err(Error { kind: ErrorKind::InsufficientSize, pos: 0 });
                    }
                }
                Ok(this)
            }
        }
    }
    fn walk(&self, w: &mut Walk) {
        w.obj(self, "vec");
        w.bytes(self.as_bytes(), "vec.as_bytes");
        let (len, cap) = (self.len(), self.capacity());
        w.caps.push(cap);
        if len > cap {
            w.problems.push(format!("FlatVec len {} > capacity {}", len, cap));
            return;
        }
        if self.is_full() != (len == cap) || self.is_empty() != (len == 0) {
            w.problems.push("FlatVec is_full/is_empty inconsistent".into());
        }
        if self.remaining() != cap - len {
            w.problems.push("FlatVec remaining != capacity - len".into());
        }
        let s = self.as_slice();
        w.ranges.push((s.as_ptr() as usize, core::mem::size_of_val(s), "vec.as_slice"));
        for x in s {
            x.walk(w);
        }
    }
    fn field_probes(&self) -> Vec<FieldProbe> {
        let s = self.as_slice();
        vec![FieldProbe { addr: s.as_ptr() as usize, size: self.capacity() * core::mem::size_of::<T>(), align: core::mem::align_of::<T>() }]
    }
    fn eq_real(&self, other: &Self) -> Option<(bool, Option<core::cmp::Ordering>)> {
        Some((self == other, self.partial_cmp(other)))
    }
    fn apply(&mut self, path: &[usize], op: &Op) -> OpOut {
        if !path.is_empty() {
            return OpOut::BadPath;
        }
        match op {
            Op::VecPush(x) => match self.push(T::from_value(x)) {
                Ok(()) => OpOut::Done,
                Err(_) => OpOut::Refused("full".into()),
            },
            Op::VecPop => OpOut::Took(self.pop().map(|x| x.read())),
            Op::VecPushSlice(xs) => {
                let tmp: Vec<T> = xs.iter().map(T::from_value).collect();
                match self.push_slice(&tmp) {
                    Ok(()) => OpOut::Done,
                    Err(_) => OpOut::Refused("full".into()),
                }
            }
            Op::VecExtend(xs) => {
                self.extend_until_full(xs.iter().map(T::from_value));
                OpOut::Done
            }
            Op::VecTruncate(k) => {
                self.truncate(*k);
                OpOut::Done
            }
            Op::VecClear => {
                self.clear();
                OpOut::Done
            }
            Op::VecRemove(i) => OpOut::Took(Some(self.remove(*i).read())),
            Op::VecSwapRemove(i) => OpOut::Took(Some(self.swap_remove(*i).read())),
            Op::VecResize(k, x) => {
                self.resize(*k, T::from_value(x));
                OpOut::Done
            }
            Op::VecSet(i, x) => {
                self[*i] = T::from_value(x);
                OpOut::Done
            }
            Op::VecReverse => {
                self.as_mut_slice().reverse();
                OpOut::Done
            }
            Op::Assign(..) => unsized_self_op(self, op),
            _ => OpOut::BadPath,
        }
    }
    fn try_default(bytes: &mut [u8]) -> Option<Result<&mut Self, Error>> {
        Some(Self::default_in_place(bytes))
    }
    crate::impl_flex_push_default!();
}

impl<L: LenNode> Node for FlatString<L> {
    fn desc() -> Desc {
        Desc::Str { len: L::len_ty() }
    }
    fn declared_portable() -> bool {
        L::len_ty().align == 1
    }
    fn read(&self) -> Value {
        Value::Str(self.as_str().as_bytes().to_vec())
    }
    unsafe fn emplace_value_unchecked<'a>(bytes: &'a mut [u8], v: &Value, kind: Kind) -> Result<&'a mut Self, Error> {
        let s = match v {
            Value::Str(s) => std::str::from_utf8(s).expect("model strings are UTF-8"),
            o => panic!("expected str, got {:?}", o),
        };
        match kind {
            Kind::Iter | Kind::Literal => string::FromStr(s).emplace_unchecked(bytes),
            Kind::Grow => {
                let this = <string::Empty as Emplacer<Self>>::emplace_unchecked(string::Empty, bytes)?;
                if this.capacity() < s.len() {
                    return Err(Error { kind: ErrorKind::InsufficientSize, pos: 0 });
                }
                for c in s.chars() {
                    if this.push(c).is_err() {
                        return Err(Error { kind: ErrorKind::InsufficientSize, pos: 0 });
                    }
                }
                Ok(this)
            }
        }
    }
    fn walk(&self, w: &mut Walk) {
        w.obj(self, "str");
        w.bytes(self.as_bytes(), "str.as_bytes");
        let (len, cap) = (self.len(), self.capacity());
        w.caps.push(cap);
        if len > cap {
            w.problems.push(format!("FlatString len {} > capacity {}", len, cap));
            return;
        }
        if self.remaining() != cap - len || self.is_full() != (len == cap) || self.is_empty() != (len == 0) {
            w.problems.push("FlatString remaining/is_full/is_empty inconsistent".into());
        }
        let s = self.as_vec().as_slice();
        w.bytes(s, "str.data");
        if std::str::from_utf8(s).is_err() {
            w.problems.push("FlatString content is not UTF-8".into());
        }
    }
    fn field_probes(&self) -> Vec<FieldProbe> {
        let s = self.as_vec().as_slice();
        vec![FieldProbe { addr: s.as_ptr() as usize, size: self.capacity(), align: 1 }]
    }
    fn eq_real(&self, other: &Self) -> Option<(bool, Option<core::cmp::Ordering>)> {
        Some((self == other, self.partial_cmp(other)))
    }
    fn apply(&mut self, path: &[usize], op: &Op) -> OpOut {
        if !path.is_empty() {
            return OpOut::BadPath;
        }
        match op {
            Op::StrPush(c) => match self.push(*c) {
                Ok(()) => OpOut::Done,
                Err(_) => OpOut::Refused("full".into()),
            },
            Op::StrPushStr(s) => match self.push_str(s) {
                Ok(()) => OpOut::Done,
                Err(_) => OpOut::Refused("full".into()),
            },
            Op::StrClear => {
                self.clear();
                OpOut::Done
            }
            Op::StrUpper => {
                self.as_mut_str().make_ascii_uppercase();
                OpOut::Done
            }
            Op::Assign(..) => unsized_self_op(self, op),
            _ => OpOut::BadPath,
        }
    }
    fn try_default(bytes: &mut [u8]) -> Option<Result<&mut Self, Error>> {
        Some(Self::default_in_place(bytes))
    }
    crate::impl_flex_push_default!();
}

fn flex_items(v: &Value) -> &[Value] {
    match v {
        Value::Flex(i) => i,
        o => panic!("expected flex, got {:?}", o),
    }
}

impl<T: Node + ?Sized, L: LenNode> Node for FlexVec<T, L> {
    fn desc() -> Desc {
        Desc::Flex { item: Box::new(T::desc()), len: L::len_ty() }
    }
    fn declared_portable() -> bool {
        T::declared_portable() && (L::len_ty().align == 1)
    }
    fn read(&self) -> Value {
        Value::Flex(self.iter().map(|x| x.read()).collect())
    }
    unsafe fn emplace_value_unchecked<'a>(bytes: &'a mut [u8], v: &Value, kind: Kind) -> Result<&'a mut Self, Error> {
        let items = flex_items(v);
        match kind {
            Kind::Iter | Kind::Literal => {
                flex::FromIterator::<T, ByValue<'_>, _>::new(items.iter().map(|it| ByValue(it, kind))).emplace_unchecked(bytes)
            }
            Kind::Grow => {
                let this = <flex::Empty as Emplacer<Self>>::emplace_unchecked(flex::Empty, bytes)?;
                for it in items {
                    this.push(ByValue(it, kind))?;
                }
                Ok(this)
            }
        }
    }
    fn walk(&self, w: &mut Walk) {
        w.obj(self, "flex");
        w.bytes(self.as_bytes(), "flex.as_bytes");
        let n = self.len();
        let mut k = 0;
        for x in self.iter() {
            x.walk(w);
            k += 1;
        }
        if k != n {
            w.problems.push(format!("FlexVec len() {} != iter().count() {}", n, k));
        }
        if self.is_empty() != (n == 0) {
            w.problems.push("FlexVec is_empty() inconsistent with len()".into());
        }
    }
    fn field_probes(&self) -> Vec<FieldProbe> {
        self.iter().map(|x| probe(x)).collect()
    }
    fn apply(&mut self, path: &[usize], op: &Op) -> OpOut {
        if let Some((i, rest)) = path.split_first() {
            return match self.iter_mut().nth(*i) {
                Some(x) => x.apply(rest, op),
                None => OpOut::BadPath,
            };
        }
        match op {
            Op::FlexPush(v, k) => match self.push(ByValue(v, *k)) {
                Ok(_) => OpOut::Done,
                Err(e) => refused(&e),
            },
            Op::FlexPushDefault => match T::flex_push_default(self) {
                Some(Ok(())) => OpOut::Done,
                Some(Err(e)) => refused(&e),
                None => OpOut::BadPath,
            },
            Op::FlexPushFailing => match self.push(Failing) {
                Ok(_) => OpOut::Done,
                Err(e) => refused(&e),
            },
            Op::FlexPop => match self.pop() {
                Ok(()) => OpOut::Took(None),
                Err(_) => OpOut::Refused("empty".into()),
            },
            Op::FlexTruncate(k) => {
                self.truncate(*k);
                OpOut::Done
            }
            Op::FlexClear => {
                self.clear();
                OpOut::Done
            }
            Op::Assign(..) => unsized_self_op(self, op),
            _ => OpOut::BadPath,
        }
    }
    fn try_default(bytes: &mut [u8]) -> Option<Result<&mut Self, Error>> {
        Some(Self::default_in_place(bytes))
    }
    crate::impl_flex_push_default!();
}

