//! Guarded arena: the slice under test sits right before a PROT_NONE page, surrounded by canary
//! bytes with a value that is invalid for every constrained flat type (0xEE: not a Bool, not a
//! small tag, not UTF-8, a huge length).

pub const CANARY: u8 = 0xEE;
pub const PRE: usize = 128;
pub const ALIGN_BASE: usize = 64;

thread_local! {
    static DROPS: std::cell::RefCell<Vec<usize>> = std::cell::RefCell::new(Vec::new());
}
/// Called by the destructor of catalog types that have one: records the address of the dropped value.
pub fn note_drop(addr: usize) {
    let _ = DROPS.try_with(|d| d.borrow_mut().push(addr));
}
/// Addresses of the values whose destructor ran on this thread since the last call.
pub fn take_drops() -> Vec<usize> {
    DROPS.try_with(|d| std::mem::take(&mut *d.borrow_mut())).unwrap_or_default()
}

pub struct Arena {
    base: *mut u8,
    usable: usize,
    total: usize,
    /// VERIF_ASAN=1: every placement is its own exactly sized heap allocation, so that
    /// AddressSanitizer sees byte-accurate bounds on the right side (and `off` bytes slack on the left)
    heap: bool,
    cur: *mut u8,
    cur_layout: Option<std::alloc::Layout>,
}

pub fn asan_mode() -> bool {
    std::env::var("VERIF_ASAN").map(|v| v == "1").unwrap_or(false)
}

unsafe impl Send for Arena {}

impl Arena {
    /// An arena able to hold slices of up to `max_len` bytes.
    pub fn new(max_len: usize) -> Arena {
        let page = 4096usize;
        let usable = (PRE + max_len + 2 * ALIGN_BASE + page - 1) / page * page;
        let total = usable + page;
        unsafe {
            let p = libc::mmap(
                core::ptr::null_mut(),
                total,
                libc::PROT_READ | libc::PROT_WRITE,
                libc::MAP_PRIVATE | libc::MAP_ANONYMOUS,
                -1,
                0,
            );
            assert!(p != libc::MAP_FAILED, "mmap failed");
            let base = p as *mut u8;
            core::ptr::write_bytes(base, CANARY, usable);
            let r = libc::mprotect(base.add(usable) as *mut _, page, libc::PROT_NONE);
            assert_eq!(r, 0, "mprotect failed");
            Arena { base, usable, total, heap: asan_mode(), cur: core::ptr::null_mut(), cur_layout: None }
        }
    }

    /// longest slice `place` accepts
    pub fn capacity(&self) -> usize {
        self.usable - PRE - 2 * ALIGN_BASE
    }

    fn release_heap(&mut self) {
        if let Some(l) = self.cur_layout.take() {
            unsafe { std::alloc::dealloc(self.cur, l) };
            self.cur = core::ptr::null_mut();
        }
    }

    /// Place a slice of `len` bytes whose address is `off` modulo 64, as close to the guard
    /// page as that allows; its bytes are set to `fill`.
    pub fn place(&mut self, len: usize, off: usize, fill: u8) -> Slot<'_> {
        let off = off % ALIGN_BASE;
        if self.heap {
            self.release_heap();
            let layout = std::alloc::Layout::from_size_align((off + len).max(1), ALIGN_BASE).unwrap();
            let p = unsafe { std::alloc::alloc(layout) };
            assert!(!p.is_null());
            unsafe { core::ptr::write_bytes(p, CANARY, off + len) };
            unsafe { core::ptr::write_bytes(p.add(off), fill, len) };
            self.cur = p;
            self.cur_layout = Some(layout);
            return Slot { arena: self, start: off, len };
        }
        let end_max = self.base as usize + self.usable;
        let mut k = 0;
        while (end_max - k - len) % ALIGN_BASE != off {
            k += 1;
        }
        let start = self.usable - k - len;
        assert!(start >= PRE, "arena too small for {} bytes", len);
        unsafe {
            core::ptr::write_bytes(self.base.add(start), fill, len);
        }
        Slot { arena: self, start, len }
    }
}

impl Drop for Arena {
    fn drop(&mut self) {
        self.release_heap();
        unsafe {
            libc::munmap(self.base as *mut _, self.total);
        }
    }
}

pub struct Slot<'a> {
    arena: &'a mut Arena,
    start: usize,
    len: usize,
}

impl<'a> Slot<'a> {
    fn base(&self) -> *mut u8 {
        if self.arena.heap {
            self.arena.cur
        } else {
            self.arena.base
        }
    }
    pub fn bytes(&self) -> &[u8] {
        unsafe { core::slice::from_raw_parts(self.base().add(self.start), self.len) }
    }
    pub fn bytes_mut(&mut self) -> &mut [u8] {
        unsafe { core::slice::from_raw_parts_mut(self.base().add(self.start), self.len) }
    }
    pub fn addr(&self) -> usize {
        self.base() as usize + self.start
    }
    pub fn len(&self) -> usize {
        self.len
    }
    /// Overwrite the bytes between the end of the slice and the guard page (at most 63) with `fill`
    /// (differential monitor for over-reads: a verdict must not depend on them). Returns how many.
    pub fn set_after(&mut self, fill: u8) -> usize {
        if self.arena.heap {
            return 0;
        }
        let from = self.start + self.len;
        let n = self.arena.usable - from;
        unsafe { core::ptr::write_bytes(self.arena.base.add(from), fill, n) };
        n
    }
    /// Is the pointer range inside the slice?
    pub fn contains(&self, addr: usize, len: usize) -> bool {
        addr >= self.addr() && addr + len <= self.addr() + self.len
    }
    /// Verify the canaries around the slice; repairs them and reports the first damaged offset
    /// (relative to the slice start; negative = before it).
    pub fn check(&mut self) -> Result<(), String> {
        if self.arena.heap {
            // the sanitizer is the monitor on the right side; the left slack is checked here
            let mut bad = None;
            for i in 0..self.start {
                if unsafe { *self.base().add(i) } != CANARY {
                    bad.get_or_insert(i as isize - self.start as isize);
                }
            }
            return match bad {
                None => Ok(()),
                Some(o) => Err(format!("write outside the slice at relative offset {} (slice len {})", o, self.len)),
            };
        }
        let mut bad: Option<isize> = None;
        unsafe {
            let lo = self.start - PRE;
            for i in lo..self.start {
                let p = self.arena.base.add(i);
                if *p != CANARY {
                    bad.get_or_insert(i as isize - self.start as isize);
                    *p = CANARY;
                }
            }
            for i in self.start + self.len..self.arena.usable {
                let p = self.arena.base.add(i);
                if *p != CANARY {
                    bad.get_or_insert(i as isize - self.start as isize);
                    *p = CANARY;
                }
            }
        }
        match bad {
            None => Ok(()),
            Some(o) => Err(format!("write outside the slice at relative offset {} (slice len {})", o, self.len)),
        }
    }
}

impl<'a> Drop for Slot<'a> {
    fn drop(&mut self) {
        if self.arena.heap {
            return;
        }
        // leave the arena all-canary for the next placement
        unsafe {
            core::ptr::write_bytes(self.arena.base.add(self.start), CANARY, self.len);
        }
    }
}
