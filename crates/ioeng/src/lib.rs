//! E3: stateless choice-sequence exploration with deviation bounding, scripted pipes (blocking and
//! async) whose every answer is a choice point, and a single-threaded executor whose poll order is
//! a choice point too. All real flatty-io code; the only model is "the stream is a byte queue".

use futures::io::{AsyncRead, AsyncWrite};
use futures::task::{waker, ArcWake};
use std::cell::{Cell, RefCell};
use std::collections::VecDeque;
use std::future::Future;
use std::io::{self, Read, Write};
use std::pin::Pin;
use std::rc::Rc;
use std::sync::atomic::{AtomicBool, Ordering};
use std::sync::Arc;
use std::task::{Context, Poll, Waker};

// ------------------------------------------------------------------------------------------
// explorer
// ------------------------------------------------------------------------------------------

#[derive(Default)]
struct ExState {
    prefix: Vec<(u16, u16)>,
    trace: Vec<(u16, u16)>,
}

thread_local! {
    static EX: RefCell<ExState> = RefCell::new(ExState::default());
}

/// A decision of the environment with `arity` alternatives; alternative 0 is the default answer.
pub fn point(arity: usize) -> usize {
    if arity <= 1 {
        return 0;
    }
    EX.with(|e| {
        let mut e = e.borrow_mut();
        let i = e.trace.len();
        let c = if i < e.prefix.len() {
            let (c, a) = e.prefix[i];
            if a as usize != arity {
                // a divergence while replaying a prefix is a hard machinery error
                eprintln!("MACHINERY: explorer divergence at point {}: arity {} recorded, {} offered", i, a, arity);
                std::process::exit(2);
            }
            c
        } else {
            0
        };
        e.trace.push((c, arity as u16));
        c as usize
    })
}

fn begin(prefix: &[(u16, u16)]) {
    EX.with(|e| {
        let mut e = e.borrow_mut();
        e.prefix = prefix.to_vec();
        e.trace.clear();
    })
}
fn end() -> Vec<(u16, u16)> {
    EX.with(|e| std::mem::take(&mut e.borrow_mut().trace))
}

#[derive(Default, Debug, Clone)]
pub struct Stats {
    pub executions: u64,
    pub max_points: usize,
    pub capped: bool,
    pub max_deviations_seen: usize,
    /// decision nodes visited (sum of choice points over all executions)
    pub total_points: u64,
}

/// Depth-first enumeration of all choice sequences with at most `bound` non-default choices
/// (`None` = unbounded). `run` executes the system once under the current choice sequence.
pub fn explore<R>(bound: Option<usize>, max_execs: u64, mut run: impl FnMut() -> R, mut check: impl FnMut(&[(u16, u16)], R)) -> Stats {
    // iterative deviation bounding: everything with 0 deviations, then exactly 1, then exactly 2 ...
    // so that the first counterexample recorded for a symptom has the fewest deviations
    if let Some(b) = bound {
        let mut total = Stats::default();
        for cur in 0..=b {
            let st = explore_le(Some(cur), max_execs, &mut run, &mut |t: &[(u16, u16)], r: R| {
                if t.iter().filter(|(c, _)| *c != 0).count() == cur {
                    check(t, r)
                }
            });
            // executions with fewer deviations are re-executions; count the last round only
            if cur == b {
                total = st;
            } else if st.max_deviations_seen < cur {
                // no execution has that many choice points: deeper rounds add nothing
                return st;
            }
        }
        return total;
    }
    explore_le(None, max_execs, &mut run, &mut check)
}

fn explore_le<R>(bound: Option<usize>, max_execs: u64, run: &mut dyn FnMut() -> R, check: &mut dyn FnMut(&[(u16, u16)], R)) -> Stats {
    let mut st = Stats::default();
    let mut stack: Vec<Vec<(u16, u16)>> = vec![vec![]];
    while let Some(prefix) = stack.pop() {
        if st.executions >= max_execs {
            st.capped = true;
            break;
        }
        begin(&prefix);
        harness::report::tick();
        let r = run();
        let trace = end();
        st.executions += 1;
        st.max_points = st.max_points.max(trace.len());
        st.total_points += trace.len() as u64 + 1;
        let devs_total = trace.iter().filter(|(c, _)| *c != 0).count();
        st.max_deviations_seen = st.max_deviations_seen.max(devs_total);
        check(&trace, r);
        let mut dev = prefix.iter().filter(|(c, _)| *c != 0).count();
        for i in prefix.len()..trace.len() {
            let (c, a) = trace[i];
            debug_assert_eq!(c, 0);
            if bound.map_or(true, |b| dev + 1 <= b) {
                for alt in (1..a).rev() {
                    let mut p = trace[..i].to_vec();
                    p.push((alt, a));
                    stack.push(p);
                }
            }
            if c != 0 {
                dev += 1;
            }
        }
    }
    st
}

/// Re-run one recorded choice sequence.
pub fn replay<R>(choices: &[(u16, u16)], mut run: impl FnMut() -> R) -> (Vec<(u16, u16)>, R) {
    begin(choices);
    let r = run();
    (end(), r)
}

// ------------------------------------------------------------------------------------------
// fault alphabet
// ------------------------------------------------------------------------------------------

#[derive(Clone, Copy, Debug, PartialEq)]
pub enum Fault {
    None,
    Err(io::ErrorKind),
    /// write returns Ok(0) / read reports end of stream
    Zero,
}

#[derive(Clone, Debug)]
pub struct FaultCfg {
    pub enabled: bool,
    pub kinds: Vec<io::ErrorKind>,
    pub budget: usize,
}
impl FaultCfg {
    pub fn off() -> Self {
        FaultCfg { enabled: false, kinds: vec![], budget: 0 }
    }
}

#[derive(Default)]
pub struct FaultState {
    used: usize,
    persistent: Option<Fault>,
    pub injected: Vec<(usize, String)>,
}

/// Decide the fault (if any) for pipe call number `call`.
fn fault_point(cfg: &FaultCfg, st: &mut FaultState, call: usize) -> Fault {
    if !cfg.enabled {
        return Fault::None;
    }
    if let Some(f) = st.persistent {
        return f;
    }
    if st.used >= cfg.budget {
        return Fault::None;
    }
    // alternatives: none | each kind once | zero once | first kind forever | zero forever
    let k = cfg.kinds.len();
    let c = point(1 + k + 1 + 2);
    if c == 0 {
        return Fault::None;
    }
    st.used += 1;
    let (f, persistent) = if c <= k {
        (Fault::Err(cfg.kinds[c - 1]), false)
    } else if c == k + 1 {
        (Fault::Zero, false)
    } else if c == k + 2 {
        (Fault::Err(cfg.kinds[0]), true)
    } else {
        (Fault::Zero, true)
    };
    if persistent {
        st.persistent = Some(f);
    }
    st.injected.push((call, format!("{:?}{}", f, if persistent { " forever" } else { " once" })));
    f
}

pub const HORIZON_MSG: &str = "VERIF-HORIZON";

thread_local! {
    /// default chunk size of the pipes in this execution (0 = as much as fits). The alternatives at a
    /// chunk choice point are always ALL sizes 1..=max; the policy only says which one is "choice 0",
    /// i.e. what an execution without deviations looks like (a peer that trickles bytes one at a time
    /// is as ordinary as one that moves as much as fits).
    pub static CHUNK_POLICY: std::cell::Cell<usize> = const { std::cell::Cell::new(0) };
}

/// policies at or above this value mean: one byte per call for the first `policy - SWITCH_BASE` calls of the
/// execution, as much as fits afterwards (the stream then ends / a message completes exactly at call number
/// `policy - SWITCH_BASE + 1`: counters of consecutive pipe calls hidden in the code are hit at their threshold)
pub const SWITCH_BASE: usize = 1_000_000;
thread_local! {
    pub static CHUNK_CALLS: std::cell::Cell<usize> = const { std::cell::Cell::new(0) };
}
/// to be called at the start of every execution
pub fn reset_chunk_calls() {
    CHUNK_CALLS.with(|c| c.set(0));
}

/// chunk size for a pipe call that may move 1..=max bytes
pub fn chunk_point(max: usize) -> usize {
    let c = point(max);
    size_for_choice(max, c)
}

/// the size that choice `c` (0-based, `c < max`) stands for under the current policy
pub fn size_for_choice(max: usize, c: usize) -> usize {
    let pol = CHUNK_POLICY.with(|c| c.get());
    let d = if pol >= SWITCH_BASE {
        let calls = CHUNK_CALLS.with(|c| {
            let v = c.get();
            c.set(v + 1);
            v
        });
        if calls < pol - SWITCH_BASE {
            1
        } else {
            max
        }
    } else if pol == 0 {
        max
    } else {
        pol.min(max)
    };
    if c == 0 {
        return d;
    }
    // the other sizes in descending order, skipping the default
    let mut k = max;
    let mut i = 0;
    loop {
        if k != d {
            i += 1;
            if i == c {
                return k;
            }
        }
        k -= 1;
    }
}

// ------------------------------------------------------------------------------------------
// blocking pipes
// ------------------------------------------------------------------------------------------

pub struct SinkState {
    pub bytes: Vec<u8>,
    pub calls: usize,
    pub calls_in_op: usize,
    pub horizon_per_op: usize,
    pub faults: FaultState,
}

pub struct ScriptWrite {
    pub st: Rc<RefCell<SinkState>>,
    pub cfg: FaultCfg,
    pub chunking: bool,
}

impl Write for ScriptWrite {
    fn write(&mut self, buf: &[u8]) -> io::Result<usize> {
        let mut st = self.st.borrow_mut();
        st.calls += 1;
        st.calls_in_op += 1;
        if st.calls_in_op > st.horizon_per_op {
            drop(st);
            panic!("{}", HORIZON_MSG);
        }
        let call = st.calls;
        match fault_point(&self.cfg, &mut st.faults, call) {
            Fault::Err(k) => return Err(k.into()),
            Fault::Zero => return Ok(0),
            Fault::None => {}
        }
        if buf.is_empty() {
            return Ok(0);
        }
        let k = if self.chunking { chunk_point(buf.len()) } else { buf.len() };
        st.bytes.extend_from_slice(&buf[..k]);
        Ok(k)
    }
    fn flush(&mut self) -> io::Result<()> {
        Ok(())
    }
}

pub struct SourceState {
    pub stream: Vec<u8>,
    pub pos: usize,
    pub calls: usize,
    pub calls_in_op: usize,
    pub horizon_per_op: usize,
    pub faults: FaultState,
    /// sizes offered by the receiver at each call (vacant space), for the evidence
    pub max_offered: usize,
}

pub struct ScriptRead {
    pub st: Rc<RefCell<SourceState>>,
    pub cfg: FaultCfg,
    pub chunking: bool,
}

impl Read for ScriptRead {
    fn read(&mut self, buf: &mut [u8]) -> io::Result<usize> {
        let mut st = self.st.borrow_mut();
        st.calls += 1;
        st.calls_in_op += 1;
        if st.calls_in_op > st.horizon_per_op {
            drop(st);
            panic!("{}", HORIZON_MSG);
        }
        st.max_offered = st.max_offered.max(buf.len());
        let call = st.calls;
        match fault_point(&self.cfg, &mut st.faults, call) {
            Fault::Err(k) => return Err(k.into()),
            Fault::Zero => return Ok(0),
            Fault::None => {}
        }
        let remaining = st.stream.len() - st.pos;
        let max = remaining.min(buf.len());
        if max == 0 {
            return Ok(0);
        }
        let k = if self.chunking { chunk_point(max) } else { max };
        let p = st.pos;
        buf[..k].copy_from_slice(&st.stream[p..p + k]);
        st.pos += k;
        Ok(k)
    }
}

// ------------------------------------------------------------------------------------------
// async pipe (bounded, in memory) + executor
// ------------------------------------------------------------------------------------------

pub struct APipe {
    pub buf: VecDeque<u8>,
    pub cap: usize,
    pub writer_closed: bool,
    pub reader_closed: bool,
    pub read_waker: Option<Waker>,
    pub write_waker: Option<Waker>,
    pub accepted_total: usize,
    pub flushed_mark: usize,
    pub delivered_total: usize,
    pub spurious_left: usize,
    pub pendings: usize,
    pub calls: usize,
    /// a pipe that is called more often than this within one execution is being spun on
    pub call_horizon: usize,
    pub wfaults: FaultState,
    pub rfaults: FaultState,
    /// everything the writer handed over (for sink-shape oracles)
    pub all_written: Vec<u8>,
}

impl APipe {
    pub fn new(cap: usize, spurious: usize) -> Rc<RefCell<APipe>> {
        Rc::new(RefCell::new(APipe {
            buf: VecDeque::new(),
            cap,
            writer_closed: false,
            reader_closed: false,
            read_waker: None,
            write_waker: None,
            accepted_total: 0,
            flushed_mark: 0,
            delivered_total: 0,
            spurious_left: spurious,
            pendings: 0,
            calls: 0,
            call_horizon: 4000,
            wfaults: FaultState::default(),
            rfaults: FaultState::default(),
            all_written: vec![],
        }))
    }
}

pub struct AWrite {
    pub p: Rc<RefCell<APipe>>,
    pub cfg: FaultCfg,
}
pub struct ARead {
    pub p: Rc<RefCell<APipe>>,
    pub cfg: FaultCfg,
}

impl Drop for AWrite {
    fn drop(&mut self) {
        let mut p = self.p.borrow_mut();
        p.writer_closed = true;
        if let Some(w) = p.read_waker.take() {
            w.wake();
        }
    }
}
impl Drop for ARead {
    fn drop(&mut self) {
        let mut p = self.p.borrow_mut();
        p.reader_closed = true;
        if let Some(w) = p.write_waker.take() {
            w.wake();
        }
    }
}

impl AsyncWrite for AWrite {
    fn poll_write(self: Pin<&mut Self>, cx: &mut Context<'_>, data: &[u8]) -> Poll<io::Result<usize>> {
        let mut p = self.p.borrow_mut();
        p.calls += 1;
        if p.calls > p.call_horizon {
            drop(p);
            panic!("{}", HORIZON_MSG);
        }
        let call = p.calls;
        match fault_point(&self.cfg, &mut p.wfaults, call) {
            Fault::Err(k) => return Poll::Ready(Err(k.into())),
            Fault::Zero => return Poll::Ready(Ok(0)),
            Fault::None => {}
        }
        if data.is_empty() {
            return Poll::Ready(Ok(0));
        }
        if p.reader_closed {
            return Poll::Ready(Err(io::ErrorKind::BrokenPipe.into()));
        }
        let space = p.cap - p.buf.len();
        if space == 0 {
            p.write_waker = Some(cx.waker().clone());
            p.pendings += 1;
            return Poll::Pending;
        }
        let m = data.len().min(space);
        let spur = if p.spurious_left > 0 { 1 } else { 0 };
        let c = point(m + spur);
        if c >= m {
            p.spurious_left -= 1;
            p.pendings += 1;
            cx.waker().wake_by_ref();
            return Poll::Pending;
        }
        let k = size_for_choice(m, c);
        p.buf.extend(&data[..k]);
        p.all_written.extend_from_slice(&data[..k]);
        p.accepted_total += k;
        if let Some(w) = p.read_waker.take() {
            w.wake();
        }
        Poll::Ready(Ok(k))
    }
    fn poll_flush(self: Pin<&mut Self>, cx: &mut Context<'_>) -> Poll<io::Result<()>> {
        let mut p = self.p.borrow_mut();
        p.calls += 1;
        if p.calls > p.call_horizon {
            drop(p);
            panic!("{}", HORIZON_MSG);
        }
        let call = p.calls;
        match fault_point(&self.cfg, &mut p.wfaults, call) {
            Fault::Err(k) => return Poll::Ready(Err(k.into())),
            _ => {}
        }
        if p.spurious_left > 0 && point(2) == 1 {
            p.spurious_left -= 1;
            p.pendings += 1;
            cx.waker().wake_by_ref();
            return Poll::Pending;
        }
        p.flushed_mark = p.accepted_total;
        Poll::Ready(Ok(()))
    }
    fn poll_close(self: Pin<&mut Self>, _cx: &mut Context<'_>) -> Poll<io::Result<()>> {
        Poll::Ready(Ok(()))
    }
}

impl AsyncRead for ARead {
    fn poll_read(self: Pin<&mut Self>, cx: &mut Context<'_>, out: &mut [u8]) -> Poll<io::Result<usize>> {
        let mut p = self.p.borrow_mut();
        p.calls += 1;
        if p.calls > p.call_horizon {
            drop(p);
            panic!("{}", HORIZON_MSG);
        }
        let call = p.calls;
        match fault_point(&self.cfg, &mut p.rfaults, call) {
            Fault::Err(k) => return Poll::Ready(Err(k.into())),
            Fault::Zero => return Poll::Ready(Ok(0)),
            Fault::None => {}
        }
        if out.is_empty() {
            return Poll::Ready(Ok(0));
        }
        if p.buf.is_empty() {
            if p.writer_closed {
                return Poll::Ready(Ok(0));
            }
            p.read_waker = Some(cx.waker().clone());
            p.pendings += 1;
            return Poll::Pending;
        }
        let m = out.len().min(p.buf.len());
        let spur = if p.spurious_left > 0 { 1 } else { 0 };
        let c = point(m + spur);
        if c >= m {
            p.spurious_left -= 1;
            p.pendings += 1;
            cx.waker().wake_by_ref();
            return Poll::Pending;
        }
        let k = size_for_choice(m, c);
        for i in 0..k {
            out[i] = p.buf.pop_front().unwrap();
        }
        p.delivered_total += k;
        if let Some(w) = p.write_waker.take() {
            w.wake();
        }
        Poll::Ready(Ok(k))
    }
}

struct Flag(AtomicBool);
impl ArcWake for Flag {
    fn wake_by_ref(a: &Arc<Self>) {
        a.0.store(true, Ordering::SeqCst);
    }
}

#[derive(Debug, Clone, PartialEq)]
pub enum ExecEnd {
    AllDone,
    /// no task is runnable and not all are finished (a waker was lost)
    Deadlock(Vec<usize>),
    /// the poll horizon was exceeded (a future that never completes / busy loop)
    Horizon,
}

/// Run the tasks to completion: a task is polled only after its waker fired; which runnable task
/// goes next is a choice point.
pub fn run_tasks<'a>(mut tasks: Vec<Option<Pin<Box<dyn Future<Output = ()> + 'a>>>>, horizon: usize) -> (ExecEnd, usize) {
    let flags: Vec<Arc<Flag>> = tasks.iter().map(|_| Arc::new(Flag(AtomicBool::new(true)))).collect();
    let wakers: Vec<Waker> = flags.iter().map(|f| waker(f.clone())).collect();
    let mut polls = 0usize;
    loop {
        let pending: Vec<usize> = (0..tasks.len()).filter(|i| tasks[*i].is_some()).collect();
        if pending.is_empty() {
            return (ExecEnd::AllDone, polls);
        }
        let runnable: Vec<usize> = pending.iter().cloned().filter(|i| flags[*i].0.load(Ordering::SeqCst)).collect();
        if runnable.is_empty() {
            return (ExecEnd::Deadlock(pending), polls);
        }
        if polls >= horizon {
            return (ExecEnd::Horizon, polls);
        }
        let t = runnable[point(runnable.len())];
        flags[t].0.store(false, Ordering::SeqCst);
        let mut cx = Context::from_waker(&wakers[t]);
        polls += 1;
        let done = tasks[t].as_mut().unwrap().as_mut().poll(&mut cx).is_ready();
        if done {
            tasks[t] = None; // drops the task's pipe end
        }
    }
}

pub fn cell<T>(v: T) -> Rc<Cell<T>> {
    Rc::new(Cell::new(v))
}
