//! E4 (C07 cross-check): the real blocking Sender and Receiver on two loom threads over a loom
//! Mutex + Condvar byte ring (the only shared object). loom explores the thread interleavings up
//! to a preemption bound; this confirms, on small instances, the factorisation used by
//! io_explore (sender and receiver interact only through the sequence of pipe results).

use flatty::{flat, prelude::*, vec::FromIterator, FlatVec};
use flatty_io::{Receiver, RecvError, Sender};
use harness::report::{self, PropAcc, Report};
use loom::sync::{Arc, Condvar, Mutex};
use serde_json::json;
use std::collections::VecDeque;
use std::io::{self, Read, Write};
use std::sync::atomic::{AtomicU64, Ordering};

#[flat(sized = false, default = true)]
pub enum Msg {
    #[default]
    A,
    B(i32),
    C(FlatVec<i32, u16>),
    D(u8),
}

struct Ring {
    buf: VecDeque<u8>,
    cap: usize,
    closed: bool,
}
struct Shared {
    m: Mutex<Ring>,
    not_full: Condvar,
    not_empty: Condvar,
}
struct W(Arc<Shared>);
struct R(Arc<Shared>);

impl Write for W {
    fn write(&mut self, data: &[u8]) -> io::Result<usize> {
        let mut g = self.0.m.lock().unwrap();
        while g.buf.len() == g.cap {
            g = self.0.not_full.wait(g).unwrap();
        }
        let k = data.len().min(g.cap - g.buf.len());
        g.buf.extend(&data[..k]);
        self.0.not_empty.notify_one();
        Ok(k)
    }
    fn flush(&mut self) -> io::Result<()> {
        Ok(())
    }
}
impl Drop for W {
    fn drop(&mut self) {
        let mut g = self.0.m.lock().unwrap();
        g.closed = true;
        self.0.not_empty.notify_one();
    }
}
impl Read for R {
    fn read(&mut self, out: &mut [u8]) -> io::Result<usize> {
        let mut g = self.0.m.lock().unwrap();
        while g.buf.is_empty() && !g.closed {
            g = self.0.not_empty.wait(g).unwrap();
        }
        let k = out.len().min(g.buf.len());
        for i in 0..k {
            out[i] = g.buf.pop_front().unwrap();
        }
        self.0.not_full.notify_one();
        Ok(k)
    }
}

static SCHEDULES: AtomicU64 = AtomicU64::new(0);

#[derive(Clone, Debug, PartialEq)]
enum V {
    A,
    B(i32),
    C(Vec<i32>),
    D(u8),
}

fn scenario(cap: usize, msgs: Vec<V>) {
    SCHEDULES.fetch_add(1, Ordering::Relaxed);
    let sh = Arc::new(Shared { m: Mutex::new(Ring { buf: VecDeque::new(), cap, closed: false }), not_full: Condvar::new(), not_empty: Condvar::new() });
    let (w, r) = (W(sh.clone()), R(sh));
    let sent = msgs.clone();
    let t = loom::thread::spawn(move || {
        let mut sender = Sender::<Msg, _>::io(w, 16);
        for m in &sent {
            let g = sender.alloc().unwrap();
            let g = match m {
                V::A => g.default_in_place().unwrap(),
                V::B(x) => g.new_in_place(MsgInitB(*x)).unwrap(),
                V::C(v) => g.new_in_place(MsgInitC(FromIterator(v.iter().cloned()))).unwrap(),
                V::D(x) => g.new_in_place(MsgInitD(*x)).unwrap(),
            };
            g.send().unwrap();
        }
    });
    let mut receiver = Receiver::<Msg, _>::io(r, 16);
    let mut got = vec![];
    loop {
        match receiver.recv() {
            Ok(g) => got.push(match g.as_ref() {
                MsgRef::A => V::A,
                MsgRef::B(x) => V::B(*x),
                MsgRef::C(v) => V::C(v.as_slice().to_vec()),
                MsgRef::D(x) => V::D(*x),
            }),
            Err(RecvError::Closed) => break,
            Err(e) => panic!("receiver error {:?} after {:?}", e, got),
        }
    }
    assert_eq!(got, msgs, "received sequence differs from the sent one");
    t.join().unwrap();
}

fn main() {
    let args = report::parse_args();
    report::install(0);
    let rep = Report::new("io_loom", &args.tier);
    let mut acc = PropAcc::default();
    let thorough = args.thorough();
    let caps: Vec<usize> = if thorough { vec![1, 2, 3, 5, 8, 13] } else { vec![1, 3, 8] };
    let seqs: Vec<Vec<V>> = if thorough {
        vec![vec![V::D(7), V::B(-5)], vec![V::A, V::C(vec![1, 2]), V::D(9)], vec![V::C(vec![3]), V::D(1), V::A], vec![V::D(1), V::D(2), V::D(3)]]
    } else {
        vec![vec![V::D(7), V::B(-5)], vec![V::A, V::C(vec![1, 2])]]
    };
    let bound = if thorough { 3 } else { 2 };
    for cap in &caps {
        for seq in &seqs {
            let before = SCHEDULES.load(Ordering::Relaxed);
            report::journal(format!("io_loom cap={} seq={:?}", cap, seq).as_bytes());
            let (c, s) = (*cap, seq.clone());
            let r = std::panic::catch_unwind(move || {
                let mut b = loom::model::Builder::new();
                b.preemption_bound = Some(bound);
                b.check(move || scenario(c, s.clone()));
            });
            let n = SCHEDULES.load(Ordering::Relaxed) - before;
            acc.evaluations += n;
            acc.transitions += n;
            acc.states += 1;
            acc.distinct.insert(format!("cap{}:{}", cap, seq.len()));
            if let Err(p) = r {
                let msg = p.downcast_ref::<String>().cloned().or_else(|| p.downcast_ref::<&str>().map(|s| s.to_string())).unwrap_or_default();
                acc.violate(format!("io/loom/failure/cap{}", cap), format!("ring capacity {} messages {:?}: {}", cap, seq, msg), json!({"engine": "io_loom", "cap": cap, "seq": format!("{:?}", seq)}));
            }
            if acc.samples.len() < 2 {
                acc.sample(json!({"ring_capacity": cap, "messages": format!("{:?}", seq), "schedules": n, "preemption_bound": bound}));
            }
        }
    }
    acc.exhaustive = true;
    acc.notes.push(format!("loom preemption bound {}", bound));
    rep.merge("C07", acc);
    rep.write(&args.out);
    let j = rep.to_json();
    let p = &j["props"]["C07"];
    println!("engine=io_loom prop=C07 schedules={} violation_classes={}", p["evaluations"], p["violations"].as_array().unwrap().len());
    for x in p["violations"].as_array().unwrap() {
        println!("  VCLASS {} :: {}", x["key"].as_str().unwrap(), x["detail"].as_str().unwrap());
    }
    std::process::exit(0);
}
