//! io_explore --mode blocking|async|fault|hostile : C07, C08, C09, C10.

use harness::report::{self, catch, hex, Args, PropAcc, Report};
use harness::{CapSpec, Go, IoShape, Next, RecvOut, SendOut};
use ioeng::*;
use refmodel::ops::Kind;
use refmodel::tree::decode_tree;
use refmodel::values::{enum_values, Limits};
use refmodel::{decode, encode, Desc, Reject, Value};
use serde_json::json;
use std::cell::RefCell;
use std::io;
use std::rc::Rc;
use std::sync::atomic::{AtomicUsize, Ordering};
use std::sync::Mutex;

/// the driver retries an operation that keeps failing this many times (more than any fault budget,
/// so that a run of transient faults is always retried through)
const GIVE_UP: usize = 5;

/// Every heap allocation is pre-filled with 0xEE: the library's IO buffers come from an allocation it does not
/// initialise (`AlignedBytes::new`), and padding bytes of sent messages are whatever was there. Without this,
/// an execution that mis-frames a stream (a violation) would interpret heap garbage as lengths, and re-executing
/// the same choice prefix would diverge — the explorer must own that source of nondeterminism too.
struct FillAlloc;
unsafe impl std::alloc::GlobalAlloc for FillAlloc {
    unsafe fn alloc(&self, l: std::alloc::Layout) -> *mut u8 {
        let p = std::alloc::System.alloc(l);
        if !p.is_null() {
            std::ptr::write_bytes(p, 0xEE, l.size());
        }
        p
    }
    unsafe fn dealloc(&self, p: *mut u8, l: std::alloc::Layout) {
        std::alloc::System.dealloc(p, l)
    }
    unsafe fn alloc_zeroed(&self, l: std::alloc::Layout) -> *mut u8 {
        std::alloc::System.alloc_zeroed(l)
    }
    unsafe fn realloc(&self, p: *mut u8, l: std::alloc::Layout, n: usize) -> *mut u8 {
        let q = std::alloc::System.realloc(p, l, n);
        if !q.is_null() && n > l.size() {
            std::ptr::write_bytes(q.add(l.size()), 0xEE, n - l.size());
        }
        q
    }
}
#[global_allocator]
static ALLOC: FillAlloc = FillAlloc;

fn family(id: &str) -> &str {
    if id == "()" {
        return "unit";
    }
    id.split('(').next().unwrap_or(id)
}
fn panic_site(p: &str) -> String {
    p.rsplit(" at ").next().unwrap_or("").to_string()
}

#[derive(Clone)]
struct Msgs {
    vals: Vec<Value>,
    /// largest message size
    s: usize,
}

fn pick_messages(d: &Desc, thorough: bool) -> Msgs {
    let a = d.align();
    let avail = d.min_size() + 2 * a + 8;
    let lim = if thorough { Limits::thorough() } else { Limits::quick() };
    let mut vals = enum_values(d, avail, &lim);
    vals.sort_by_key(|v| encode(d, v, avail, 0).map(|i| i.extent).unwrap_or(0));
    let mut pick: Vec<Value> = vec![];
    if let Some(v) = vals.first() {
        pick.push(v.clone());
    }
    // one whose image has trailing padding
    if let Some(v) = vals.iter().find(|v| encode(d, v, avail, 0).map(|i| i.extent > 0 && !i.mask[i.extent - 1]).unwrap_or(false)) {
        pick.push(v.clone());
    }
    if vals.len() > 2 {
        pick.push(vals[vals.len() / 2].clone());
    }
    if let Some(v) = vals.last() {
        pick.push(v.clone());
    }
    let mut seen = std::collections::HashSet::new();
    pick.retain(|v| seen.insert(v.clone()));
    pick.truncate(if thorough { 4 } else { 3 });
    let s = pick.iter().map(|v| encode(d, v, avail, 0).unwrap().extent).max().unwrap_or(d.min_size());
    Msgs { vals: pick, s }
}

/// one message of at least ~40 bytes for shapes that can carry one (counters such as "32 writes per
/// poll" or "64 bytes per chunk" are only reachable with a message longer than the constant)
fn large_message(d: &Desc) -> Option<Value> {
    fn big_tail(d: &Desc) -> Option<Value> {
        match d {
            Desc::Vec { elem, len } if elem.size() > 0 => {
                let al = enum_values(elem, elem.size(), &Limits::quick());
                let n = ((44 + elem.size() - 1) / elem.size()).min(len.max() as usize);
                Some(Value::Vec((0..n).map(|i| al[i % al.len()].clone()).collect()))
            }
            Desc::Str { len } => Some(Value::Str(vec![b'q'; 44.min(len.max() as usize)])),
            _ => None,
        }
    }
    match d {
        Desc::Vec { .. } | Desc::Str { .. } => big_tail(d),
        Desc::Struct { fields, sized: false } => {
            let t = big_tail(fields.last()?)?;
            let mut v: Vec<Value> = fields[..fields.len() - 1].iter().map(|f| enum_values(f, f.size(), &Limits::quick())[0].clone()).collect();
            v.push(t);
            Some(Value::Struct(v))
        }
        Desc::Enum { variants, sized: false, .. } => {
            for (i, fs) in variants.iter().enumerate() {
                if let Some(t) = fs.last().and_then(big_tail) {
                    let mut v: Vec<Value> = fs[..fs.len() - 1].iter().map(|f| enum_values(f, f.size(), &Limits::quick())[0].clone()).collect();
                    v.push(t);
                    return Some(Value::Enum(i, v));
                }
            }
            None
        }
        Desc::Flex { item, .. } => big_tail(item).map(|t| Value::Flex(vec![t])),
        _ => None,
    }
}

thread_local! {
    static RETAIN: std::cell::Cell<bool> = const { std::cell::Cell::new(false) };
}
fn retain_on() -> bool {
    RETAIN.with(|r| r.get())
}
/// run `f` with the receiving driver's retain() choice enabled
fn with_retain<R>(f: impl FnOnce() -> R) -> R {
    RETAIN.with(|r| r.set(true));
    let r = f();
    RETAIN.with(|r| r.set(false));
    r
}

thread_local! {
    static SIZES: RefCell<std::collections::HashMap<(usize, Value), usize>> = RefCell::new(std::collections::HashMap::new());
}
/// encoded size of a message (memoised: asked once per execution)
fn msg_size(s: &dyn IoShape, v: &Value) -> usize {
    let key = (s.id().as_ptr() as usize, v.clone());
    SIZES.with(|m| {
        if let Some(x) = m.borrow().get(&key) {
            return *x;
        }
        let e = encode(&s.desc(), v, 1 << 20, 0).map(|i| i.extent).unwrap_or(0);
        m.borrow_mut().insert(key, e);
        e
    })
}

/// run `f` with the sending drivers initialising every guard with `seed` and then assigning the real message
/// through the guard (DerefMut) before send
fn with_edit<R>(seed: &Value, f: impl FnOnce() -> R) -> R {
    harness::EDIT_AFTER_INIT.with(|e| *e.borrow_mut() = Some(seed.clone()));
    let r = f();
    harness::EDIT_AFTER_INIT.with(|e| *e.borrow_mut() = None);
    r
}
fn edit_json() -> serde_json::Value {
    harness::EDIT_AFTER_INIT.with(|e| match &*e.borrow() {
        Some(v) => json!(format!("{:?}", v)),
        None => serde_json::Value::Null,
    })
}

fn with_policy<R>(p: usize, f: impl FnOnce() -> R) -> R {
    CHUNK_POLICY.with(|c| c.set(p));
    let r = f();
    CHUNK_POLICY.with(|c| c.set(0));
    r
}

fn sequences(m: &Msgs, max_len: usize) -> Vec<Vec<Value>> {
    let mut out: Vec<Vec<Value>> = vec![vec![]];
    let mut frontier: Vec<Vec<Value>> = vec![vec![]];
    for _ in 0..max_len {
        let mut next = vec![];
        for f in &frontier {
            for v in &m.vals {
                let mut g = f.clone();
                g.push(v.clone());
                next.push(g);
            }
        }
        out.extend(next.iter().cloned());
        frontier = next;
    }
    out
}

fn caps(s: usize, a: usize, thorough: bool) -> Vec<CapSpec> {
    let s = s.max(1);
    let mut v = vec![CapSpec::Io(s), CapSpec::Buf(s), CapSpec::Buf(s + 1), CapSpec::Buf(2 * s + 1)];
    if thorough {
        v.push(CapSpec::Io(s + 1));
        v.push(CapSpec::Io(2 * s));
        for c in s..=2 * s + 1 {
            v.push(CapSpec::Buf(c));
        }
    }
    let _ = a;
    v.dedup();
    let mut seen = vec![];
    v.retain(|c| {
        let k = format!("{:?}", c);
        if seen.contains(&k) {
            false
        } else {
            seen.push(k);
            true
        }
    });
    v
}

fn buf_len(cap: CapSpec, d: &Desc) -> usize {
    match cap {
        CapSpec::Io(m) => 2 * m.max(d.min_size()),
        CapSpec::Buf(c) => c,
    }
}

/// reference image of the message stream and the per-message (size, mask)
fn stream_of(d: &Desc, seq: &[Value], blen: usize) -> (Vec<u8>, Vec<bool>, Vec<usize>) {
    let mut bytes = vec![];
    let mut mask = vec![];
    let mut sizes = vec![];
    for v in seq {
        let img = encode(d, v, blen, 0).expect("message fits the sender buffer");
        bytes.extend_from_slice(&img.bytes[..img.extent]);
        mask.extend_from_slice(&img.mask[..img.extent]);
        sizes.push(img.extent);
    }
    (bytes, mask, sizes)
}

fn masked_eq(a: &[u8], b: &[u8], mask: &[bool]) -> bool {
    a.len() == b.len() && (0..a.len()).all(|i| !mask[i] || a[i] == b[i])
}

struct Ctx<'a> {
    s: &'a dyn IoShape,
    d: Desc,
    thorough: bool,
    acc: PropAcc,
    prop: &'static str,
}

impl<'a> Ctx<'a> {
    fn violate(&mut self, key: String, detail: String, replay: serde_json::Value) {
        let fam = family(self.s.id()).to_string();
        self.acc.violate(format!("io/{}/{}", key, fam), format!("{}: {}", self.s.id(), detail), replay);
    }
}

fn choices_json(t: &[(u16, u16)]) -> serde_json::Value {
    json!(t.iter().map(|(c, a)| vec![*c, *a]).collect::<Vec<_>>())
}

// ============================================================================================
// sender side (blocking), shared by blocking and fault modes
// ============================================================================================

#[derive(Debug, Clone)]
struct SendRun {
    outs: Vec<(usize, SendOut, usize)>, // (msg idx, result, sink length after the attempt)
    sink: Vec<u8>,
    panic: Option<String>,
    injected: Vec<(usize, String)>,
    calls: usize,
}

fn run_sender_blocking(s: &dyn IoShape, cap: CapSpec, seq: &[Value], kind: Kind, faults: &FaultCfg, max_img: usize) -> SendRun {
    let st = Rc::new(RefCell::new(SinkState { bytes: vec![], calls: 0, calls_in_op: 0, horizon_per_op: 2 * max_img + 8, faults: FaultState::default() }));
    let outs: RefCell<Vec<(usize, SendOut, usize)>> = RefCell::new(vec![]);
    let fails = std::cell::Cell::new(0usize);
    let r = catch(|| {
        let pipe = ScriptWrite { st: st.clone(), cfg: faults.clone(), chunking: true };
        let mut ctl = |i: usize, o: &SendOut| {
            let len = st.borrow().bytes.len();
            let prev = outs.borrow().last().map(|x| x.2).unwrap_or(0);
            outs.borrow_mut().push((i, o.clone(), len));
            st.borrow_mut().calls_in_op = 0;
            match o {
                SendOut::Ok => {
                    fails.set(0);
                    Next::Skip
                }
                _ => {
                    // a sender that reported an error after partial progress may refuse further use in any
                    // way (clause e), but nothing it does may put more bytes behind the partial message:
                    // go on with the next message and let the sink-shape oracle judge
                    if len != prev {
                        return Next::Skip;
                    }
                    fails.set(fails.get() + 1);
                    if fails.get() >= GIVE_UP {
                        Next::Stop
                    } else {
                        Next::Retry
                    }
                }
            }
        };
        s.send_blocking(Box::new(pipe), cap, seq, kind, &mut ctl);
    });
    let stb = st.borrow();
    SendRun { outs: outs.into_inner(), sink: stb.bytes.clone(), panic: r.err(), injected: stb.faults.injected.clone(), calls: stb.calls }
}

/// Sink shape oracle (C07 without faults, C09 with): each attempt wrote a prefix of its message's
/// image (all of it iff it returned Ok), and nothing follows a partial message.
fn judge_sender(cx: &mut Ctx, mode: &str, cap: CapSpec, seq: &[Value], run: &SendRun, trace: &[(u16, u16)], faulty: bool) {
    let d = cx.d.clone();
    let blen = buf_len(cap, &d);
    let replay_fn = || json!({"engine": "io_explore", "policy": CHUNK_POLICY.with(|c| c.get()), "edit": edit_json(), "mode": mode, "side": "sender", "shape": cx.s.id(), "cap": format!("{:?}", cap), "seq": seq.iter().map(|v| format!("{:?}", v)).collect::<Vec<_>>(), "choices": choices_json(trace)});
    if let Some(p) = &run.panic {
        if p.contains(HORIZON_MSG) {
            cx.violate(format!("{}/sender/hang", mode), format!("a send did not return within the call horizon; faults {:?}; seq {:?} cap {:?}", run.injected, seq, cap), replay_fn());
        } else if !(faulty && run.outs.iter().any(|o| !matches!(o.1, SendOut::Ok))) {
            cx.violate(format!("{}/sender/panic/{}", mode, panic_site(p)), format!("panic: {} (seq {:?} cap {:?} faults {:?})", p, seq, cap, run.injected), replay_fn());
        } else {
            // panic after a reported error: allowed only for a poisoned sender (partial write); judged below by the sink shape
            let poisoned = run.outs.iter().any(|o| !matches!(o.1, SendOut::Ok)) && p.contains("poisoned");
            if !poisoned {
                cx.violate(format!("{}/sender/panic_after_error/{}", mode, panic_site(p)), format!("panic after a reported error: {} (faults {:?})", p, run.injected), replay_fn());
            }
        }
        return;
    }
    let mut prev = 0usize;
    let mut partial_seen = false;
    for (i, out, len) in &run.outs {
        let img = encode(&d, &seq[*i], blen, 0).unwrap();
        let wrote = &run.sink[prev..*len];
        if partial_seen && !wrote.is_empty() {
            cx.violate(format!("{}/sender/bytes_after_partial", mode), format!("bytes reached the sink after a partial message (faults {:?})", run.injected), replay_fn());
            return;
        }
        if wrote.len() > img.extent || !masked_eq(wrote, &img.bytes[..wrote.len()], &img.mask[..wrote.len()]) {
            cx.violate(format!("{}/sender/sink_bytes", mode), format!("attempt for message {} {:?} put {} into the sink, image is {} (faults {:?})", i, seq[*i], hex(wrote), hex(&img.bytes[..img.extent]), run.injected), replay_fn());
            return;
        }
        match out {
            SendOut::Ok => {
                if wrote.len() != img.extent {
                    cx.violate(format!("{}/sender/ok_but_incomplete", mode), format!("send of message {} returned Ok with {} of {} bytes in the sink (faults {:?})", i, wrote.len(), img.extent, run.injected), replay_fn());
                    return;
                }
            }
            SendOut::Emplace(e) => {
                cx.violate(format!("{}/sender/emplace_refused", mode), format!("new_in_place refused message {:?}: {}", seq[*i], e), replay_fn());
                return;
            }
            SendOut::Io(k) => {
                if !faulty {
                    cx.violate(format!("{}/sender/spurious_error", mode), format!("send failed with {:?} on a healthy pipe", k), replay_fn());
                    return;
                }
                if !wrote.is_empty() && wrote.len() < img.extent {
                    partial_seen = true;
                }
            }
        }
        prev = *len;
    }
    if !faulty {
        let oks = run.outs.iter().filter(|o| o.1 == SendOut::Ok).count();
        if oks != seq.len() {
            cx.violate(format!("{}/sender/missing", mode), format!("{} of {} messages sent", oks, seq.len()), replay_fn());
        }
    } else if run.injected.is_empty() {
        let oks = run.outs.iter().filter(|o| o.1 == SendOut::Ok).count();
        if oks != seq.len() {
            cx.violate(format!("{}/sender/missing", mode), format!("no fault injected but {} of {} messages sent", oks, seq.len()), replay_fn());
        }
    }
}

// ============================================================================================
// receiver side (blocking)
// ============================================================================================

#[derive(Debug, Clone)]
struct RecvRun {
    outs: Vec<(RecvOut, usize)>, // result, stream position delivered so far
    panic: Option<String>,
    injected: Vec<(usize, String)>,
    delivered: usize,
    max_offered: usize,
}

fn run_receiver_blocking(s: &dyn IoShape, cap: CapSpec, stream: &[u8], faults: &FaultCfg, chunking: bool) -> RecvRun {
    reset_chunk_calls();
    let st = Rc::new(RefCell::new(SourceState { stream: stream.to_vec(), pos: 0, calls: 0, calls_in_op: 0, horizon_per_op: 2 * stream.len() + 16, faults: FaultState::default(), max_offered: 0 }));
    let outs: RefCell<Vec<(RecvOut, usize)>> = RefCell::new(vec![]);
    let errs = std::cell::Cell::new(0usize);
    let just_retained = std::cell::Cell::new(false);
    let retained: RefCell<Vec<usize>> = RefCell::new(vec![]);
    let limit = 2 * stream.len() + 8;
    let r = catch(|| {
        let pipe = ScriptRead { st: st.clone(), cfg: faults.clone(), chunking };
        let mut ctl = |o: &RecvOut| {
            let pos = st.borrow().pos;
            outs.borrow_mut().push((o.clone(), pos));
            st.borrow_mut().calls_in_op = 0;
            // a receiver cannot yield more messages than there are bytes: stop a run-away one so that
            // the oracle (not the watchdog) reports it
            if outs.borrow().len() > limit {
                return Go::Stop;
            }
            match o {
                RecvOut::Msg { .. } => {
                    errs.set(0);
                    // the receiving side's own choice: consume the message (default) or retain() it once
                    if retain_on() && !just_retained.get() && point(2) == 1 {
                        just_retained.set(true);
                        retained.borrow_mut().push(outs.borrow().len() - 1);
                        Go::Retain
                    } else {
                        just_retained.set(false);
                        Go::Next
                    }
                }
                RecvOut::Read(_) => {
                    errs.set(errs.get() + 1);
                    if errs.get() < GIVE_UP {
                        Go::Next
                    } else {
                        Go::Stop
                    }
                }
                _ => Go::Stop,
            }
        };
        s.recv_blocking(Box::new(pipe), cap, &mut ctl);
    });
    let stb = st.borrow();
    let mut outs = outs.into_inner();
    // a retained message is handed out once more by the next recv without touching the pipe: that one
    // repeat is not a duplicate (anything else the retained guard causes is judged like every other result)
    for i in retained.into_inner().into_iter().rev() {
        if i + 1 < outs.len() && outs[i + 1] == outs[i] {
            outs.remove(i + 1);
        }
    }
    RecvRun { outs, panic: r.err(), injected: stb.faults.injected.clone(), delivered: stb.pos, max_offered: stb.max_offered }
}

/// Healthy-pipe oracle: exactly the sent messages in order, then Closed.
fn judge_receiver_exact(cx: &mut Ctx, mode: &str, cap: CapSpec, seq: &[Value], stream: &[u8], sizes: &[usize], run: &RecvRun, trace: &[(u16, u16)]) {
    let replay_fn = || json!({"engine": "io_explore", "policy": CHUNK_POLICY.with(|c| c.get()), "retain": retain_on(), "mode": mode, "side": "receiver", "shape": cx.s.id(), "cap": format!("{:?}", cap), "seq": seq.iter().map(|v| format!("{:?}", v)).collect::<Vec<_>>(), "stream": hex(stream), "choices": choices_json(trace)});
    if let Some(p) = &run.panic {
        let key = if p.contains(HORIZON_MSG) { format!("{}/receiver/hang", mode) } else { format!("{}/receiver/panic/{}", mode, panic_site(p)) };
        cx.violate(key, format!("{} (stream {} cap {:?} after {} results)", p, hex(stream), cap, run.outs.len()), replay_fn());
        return;
    }
    let mut pos = 0;
    for (i, v) in seq.iter().enumerate() {
        match run.outs.get(i) {
            Some((RecvOut::Msg { value, size, bytes, problems }, _)) => {
                if value != v || *size != sizes[i] || bytes.as_slice() != &stream[pos..pos + sizes[i]] || !problems.is_empty() {
                    cx.violate(format!("{}/receiver/wrong_message", mode), format!("message {} should be {:?} ({} bytes), got {:?} size {} bytes {} problems {:?}", i, v, sizes[i], value, size, hex(bytes), problems), replay_fn());
                    return;
                }
            }
            other => {
                let what = match other {
                    Some((RecvOut::Parse(_), _)) => "parse_error",
                    Some((RecvOut::Read(_), _)) => "read_error",
                    Some((RecvOut::Closed, _)) => "closed_early",
                    _ => "missing",
                };
                cx.violate(format!("{}/receiver/{}", mode, what), format!("message {} ({:?}) not delivered: {:?} (stream {} cap {:?})", i, v, other.map(|o| &o.0), hex(stream), cap), replay_fn());
                return;
            }
        }
        pos += sizes[i];
    }
    match run.outs.get(seq.len()) {
        Some((RecvOut::Closed, _)) if run.outs.len() == seq.len() + 1 => {}
        other => cx.violate(format!("{}/receiver/no_closed", mode), format!("after {} messages expected Closed, got {:?}", seq.len(), other.map(|o| &o.0)), replay_fn()),
    }
}

// ============================================================================================
// mode: blocking (C07)
// ============================================================================================

/// `io(pipe, max_msg_len)` documents `max_msg_len.max(M::MIN_SIZE)`: a limit BELOW the minimum size is legal and
/// must carry every message of minimal size (two of them, so that the second starts inside the buffer)
fn tiny_limit_cases(d: &Desc, msgs: &Msgs) -> Vec<(CapSpec, Vec<Value>)> {
    let min = d.min_size();
    if min == 0 {
        return vec![];
    }
    let smallest: Vec<Value> = msgs.vals.iter().filter(|v| encode(d, v, 4 * min + 64, 0).map(|i| i.extent == min).unwrap_or(false)).take(2).cloned().collect();
    if smallest.is_empty() {
        return vec![];
    }
    let seq = vec![smallest[0].clone(), smallest[smallest.len() - 1].clone(), smallest[0].clone()];
    let mut out = vec![(CapSpec::Io(0), seq.clone())];
    if min > 1 {
        out.push((CapSpec::Io(min - 1), seq));
    }
    out
}

fn mode_blocking(cx: &mut Ctx) {
    let d = cx.d.clone();
    let msgs = pick_messages(&d, cx.thorough);
    let seqs = sequences(&msgs, if cx.thorough { 3 } else { 2 });
    for (cap, seq) in tiny_limit_cases(&d, &msgs) {
        let blen = buf_len(cap, &d);
        let (stream, _m, sizes) = stream_of(&d, &seq, blen);
        let s = cx.s;
        let st = explore(None, 200_000, || run_sender_blocking(s, cap, &seq, Kind::Iter, &FaultCfg::off(), msgs.s), |t, r| judge_sender(cx, "blocking", cap, &seq, &r, t, false));
        account(cx, &st, None, stream.len(), "tiny_limit_sender");
        let st = explore(None, 200_000, || run_receiver_blocking(s, cap, &stream, &FaultCfg::off(), true), |t, r| judge_receiver_exact(cx, "blocking", cap, &seq, &stream, &sizes, &r, t));
        account(cx, &st, None, stream.len(), "tiny_limit_receiver");
    }
    let full_len = if cx.thorough { 16 } else { 12 };
    let dev = if cx.thorough { 3 } else { 2 };
    let max_execs = if cx.thorough { 2_000_000 } else { 60_000 };
    for cap in caps(msgs.s, d.align(), cx.thorough) {
        let blen = buf_len(cap, &d);
        for seq in &seqs {
            let (stream, _mask, sizes) = stream_of(&d, seq, blen);
            let bound = if stream.len() <= full_len { None } else { Some(dev) };
            // ---- sender: every write script
            let s = cx.s;
            let mut results: Vec<(Vec<(u16, u16)>, SendRun)> = vec![];
            let st = explore(bound, max_execs, || run_sender_blocking(s, cap, seq, Kind::Iter, &FaultCfg::off(), msgs.s), |t, r| results.push((t.to_vec(), r)));
            let mut default_sink = None;
            for (t, r) in &results {
                judge_sender(cx, "blocking", cap, seq, r, t, false);
                if t.iter().all(|(c, _)| *c == 0) {
                    default_sink = Some(r.sink.clone());
                }
            }
            account(cx, &st, bound, stream.len(), "sender");
            // ---- the sender once more, every guard initialised with another value (the smallest, then the largest
            // message) and the real message assigned THROUGH the guard before send: what is written is the final content
            if !seq.is_empty() {
                for seed in [msgs.vals[0].clone(), msgs.vals[msgs.vals.len() - 1].clone()] {
                    let mut n = 0u64;
                    let st = with_edit(&seed, || {
                        explore(Some(1), max_execs, || run_sender_blocking(s, cap, seq, Kind::Iter, &FaultCfg::off(), msgs.s), |t, r| {
                            judge_sender(cx, "blocking", cap, seq, &r, t, false);
                            n += 1;
                        })
                    });
                    account(cx, &st, Some(1), stream.len(), "sender_edit_after_init");
                    cx.acc.count("executions_edit_after_init", n);
                }
            }
            // ---- receiver: every read script over the bytes the real sender produced
            let real = default_sink.filter(|s| s.len() == stream.len()).unwrap_or(stream.clone());
            let mut rres: Vec<(Vec<(u16, u16)>, RecvRun)> = vec![];
            let st = explore(bound, max_execs, || run_receiver_blocking(s, cap, &real, &FaultCfg::off(), true), |t, r| rres.push((t.to_vec(), r)));
            let mut outcomes = std::collections::BTreeSet::new();
            for (t, r) in &rres {
                judge_receiver_exact(cx, "blocking", cap, seq, &real, &sizes, r, t);
                outcomes.insert(format!("{:?}", r.outs.iter().map(|o| o.1).collect::<Vec<_>>()));
            }
            account(cx, &st, bound, stream.len(), "receiver");
            // ---- the same, with the receiving side free to retain() each message once before consuming it
            if !seq.is_empty() {
                let mut rres: Vec<(Vec<(u16, u16)>, RecvRun)> = vec![];
                let st = with_retain(|| explore(Some(dev), max_execs, || run_receiver_blocking(s, cap, &real, &FaultCfg::off(), true), |t, r| rres.push((t.to_vec(), r))));
                with_retain(|| {
                    for (t, r) in &rres {
                        judge_receiver_exact(cx, "blocking", cap, seq, &real, &sizes, r, t);
                    }
                });
                account(cx, &st, Some(dev), stream.len(), "receiver_retain");
            }
            cx.acc.distinct.insert(format!("{}:{:?}:{}:{}", cx.s.id(), cap, seq.len(), outcomes.len().min(9)));
            if cx.acc.samples.len() < 3 && seq.len() == 2 {
                cx.acc.sample(json!({"shape": cx.s.id(), "cap": format!("{:?}", cap), "messages": seq.iter().map(|v| format!("{:?}", v)).collect::<Vec<_>>(), "stream": hex(&real), "write_scripts": results.len(), "read_scripts": rres.len(), "bound": format!("{:?}", bound)}));
            }
        }
    }
}

/// C07 extra: a peer that trickles (default chunk 1 or 2 bytes, deviations relative to that) and a
/// message longer than 40 bytes
fn mode_blocking_trickle(cx: &mut Ctx) {
    let d = cx.d.clone();
    let msgs = pick_messages(&d, cx.thorough);
    let mut seqs: Vec<Vec<Value>> = sequences(&msgs, 2).into_iter().filter(|s| !s.is_empty()).collect();
    let mut s_max = msgs.s;
    if let Some(big) = large_message(&d) {
        let e = encode(&d, &big, 4096, 0).map(|i| i.extent).unwrap_or(0);
        if e > 0 {
            s_max = s_max.max(e);
            seqs.push(vec![big.clone()]);
            seqs.push(vec![msgs.vals[0].clone(), big.clone(), msgs.vals[0].clone()]);
        }
    }
    let dev = if cx.thorough { 2 } else { 1 };
    let max_execs = if cx.thorough { 400_000 } else { 30_000 };
    let cap = CapSpec::Io(s_max.max(1));
    let blen = buf_len(cap, &d);
    for policy in if cx.thorough { vec![1usize, 2, 3] } else { vec![1usize, 2] } {
        for seq in &seqs {
            let (stream, _m, sizes) = stream_of(&d, seq, blen);
            let s = cx.s;
            let mut results: Vec<(Vec<(u16, u16)>, SendRun)> = vec![];
            let st = with_policy(policy, || explore(Some(dev), max_execs, || run_sender_blocking(s, cap, seq, Kind::Iter, &FaultCfg::off(), s_max), |t, r| results.push((t.to_vec(), r))));
            let mut sink = None;
            for (t, r) in &results {
                judge_sender(cx, "blocking", cap, seq, r, t, false);
                if t.iter().all(|(c, _)| *c == 0) {
                    sink = Some(r.sink.clone());
                }
            }
            account(cx, &st, Some(dev), stream.len(), "trickle_sender");
            let real = sink.filter(|x| x.len() == stream.len()).unwrap_or(stream.clone());
            let mut rres: Vec<(Vec<(u16, u16)>, RecvRun)> = vec![];
            let st = with_policy(policy, || explore(Some(dev), max_execs, || run_receiver_blocking(s, cap, &real, &FaultCfg::off(), true), |t, r| rres.push((t.to_vec(), r))));
            for (t, r) in &rres {
                judge_receiver_exact(cx, "blocking", cap, seq, &real, &sizes, r, t);
            }
            account(cx, &st, Some(dev), stream.len(), "trickle_receiver");
            cx.acc.distinct.insert(format!("{}:trickle{}:{}", cx.s.id(), policy, stream.len()));
        }
    }
}

/// C08 extra: trickling pipe (default chunk 1 / 2) over a roomy pipe, incl. a message longer than 40 bytes
fn mode_async_trickle(cx: &mut Ctx) {
    let d = cx.d.clone();
    let msgs = pick_messages(&d, cx.thorough);
    let mut seqs: Vec<Vec<Value>> = vec![vec![msgs.vals[0].clone()], vec![msgs.vals[msgs.vals.len() - 1].clone(), msgs.vals[0].clone()]];
    let mut s_max = msgs.s;
    if let Some(big) = large_message(&d) {
        let e = encode(&d, &big, 4096, 0).map(|i| i.extent).unwrap_or(0);
        if e > 0 {
            s_max = s_max.max(e);
            seqs.push(vec![big.clone(), msgs.vals[0].clone()]);
        }
    }
    let dev = if cx.thorough { 2 } else { 1 };
    let max_execs = if cx.thorough { 300_000 } else { 20_000 };
    let cap = CapSpec::Io(s_max.max(1));
    for policy in [1usize, 2] {
        for seq in &seqs {
            let s = cx.s;
            for pc in [2 * s_max.max(1), 3] {
                let mut res: Vec<(Vec<(u16, u16)>, AsyncRun)> = vec![];
                let st = with_policy(policy, || explore(Some(dev), max_execs, || run_async(s, cap, seq, pc, 1, &FaultCfg::off(), &FaultCfg::off()), |t, r| res.push((t.to_vec(), r))));
                for (t, r) in &res {
                    judge_async(cx, cap, pc, seq, r, t);
                }
                account(cx, &st, Some(dev), 0, "trickle_async");
                cx.acc.distinct.insert(format!("{}:trickle{}:{}:{}", cx.s.id(), policy, pc, seq.len()));
            }
        }
    }
}

fn account(cx: &mut Ctx, st: &Stats, bound: Option<usize>, stream_len: usize, side: &str) {
    cx.acc.evaluations += st.executions;
    cx.acc.transitions += st.executions;
    cx.acc.states += st.total_points;
    cx.acc.count(&format!("{}_executions", side), st.executions);
    cx.acc.count(if bound.is_none() { "configs_unbounded" } else { "configs_deviation_bounded" }, 1);
    if st.capped {
        cx.acc.caps.push(format!("{} {}: execution cap reached (stream {} bytes, bound {:?})", cx.s.id(), side, stream_len, bound));
    }
}

// ============================================================================================
// mode: async (C08)
// ============================================================================================

#[derive(Debug)]
struct AsyncRun {
    end: ExecEnd,
    polls: usize,
    sends: Vec<(usize, SendOut, usize, usize)>, // idx, out, accepted_total, flushed_mark at completion
    recvs: Vec<RecvOut>,
    panic: Option<String>,
    pendings: usize,
    injected: Vec<(usize, String)>,
    written: Vec<u8>,
}

fn run_async(s: &dyn IoShape, cap: CapSpec, seq: &[Value], pipe_cap: usize, spurious: usize, wf: &FaultCfg, rf: &FaultCfg) -> AsyncRun {
    let pipe = APipe::new(pipe_cap, spurious);
    pipe.borrow_mut().call_horizon += 8 * seq.iter().map(|v| msg_size(s, v)).sum::<usize>();
    let sends: Rc<RefCell<Vec<(usize, SendOut, usize, usize)>>> = Rc::new(RefCell::new(vec![]));
    let recvs: Rc<RefCell<Vec<RecvOut>>> = Rc::new(RefCell::new(vec![]));
    let retained: Rc<RefCell<Vec<usize>>> = Rc::new(RefCell::new(vec![]));
    let total: usize = seq.len();
    let total_bytes: usize = seq.iter().map(|v| msg_size(s, v)).sum();
    let horizon = 64 + 8 * (seq.len() + 1) * 48 + 40 * seq.len() * 16 + 8 * total_bytes;
    let r = catch(|| {
        let (p1, p2, s1, r1) = (pipe.clone(), pipe.clone(), sends.clone(), recvs.clone());
        let pw = pipe.clone();
        let fails = Rc::new(std::cell::Cell::new(0usize));
        let sctl = Box::new(move |i: usize, o: &SendOut| {
            let (acc, fl) = {
                let p = pw.borrow();
                (p.accepted_total, p.flushed_mark)
            };
            let prev = s1.borrow().last().map(|x: &(usize, SendOut, usize, usize)| x.2).unwrap_or(0);
            s1.borrow_mut().push((i, o.clone(), acc, fl));
            match o {
                SendOut::Ok => {
                    fails.set(0);
                    Next::Skip
                }
                _ => {
                    if acc != prev {
                        return Next::Skip;
                    }
                    fails.set(fails.get() + 1);
                    if fails.get() >= GIVE_UP {
                        Next::Stop
                    } else {
                        Next::Retry
                    }
                }
            }
        });
        let errs = Rc::new(std::cell::Cell::new(0usize));
        let just_retained = std::cell::Cell::new(false);
        let ret1 = retained.clone();
        let rctl = Box::new(move |o: &RecvOut| {
            r1.borrow_mut().push(o.clone());
            if r1.borrow().len() > 64.max(2 * total + 8) {
                return Go::Stop;
            }
            match o {
                RecvOut::Msg { .. } => {
                    errs.set(0);
                    if retain_on() && !just_retained.get() && point(2) == 1 {
                        just_retained.set(true);
                        ret1.borrow_mut().push(r1.borrow().len() - 1);
                        Go::Retain
                    } else {
                        just_retained.set(false);
                        Go::Next
                    }
                }
                RecvOut::Read(_) => {
                    errs.set(errs.get() + 1);
                    if errs.get() < GIVE_UP {
                        Go::Next
                    } else {
                        Go::Stop
                    }
                }
                _ => Go::Stop,
            }
        });
        let st = s.send_async(Box::new(AWrite { p: p1, cfg: wf.clone() }), cap, seq, Kind::Iter, sctl);
        let rt = s.recv_async(Box::new(ARead { p: p2, cfg: rf.clone() }), cap, rctl);
        run_tasks(vec![Some(st), Some(rt)], horizon)
    });
    let _ = total;
    let p = pipe.borrow();
    let mut inj = p.wfaults.injected.clone();
    inj.extend(p.rfaults.injected.iter().cloned());
    let (end, polls, panic) = match r {
        Ok((e, n)) => (e, n, None),
        Err(p) => (ExecEnd::AllDone, 0, Some(p)),
    };
    let sends = sends.borrow().clone();
    let mut recvs = recvs.borrow().clone();
    for i in retained.borrow().iter().rev() {
        if i + 1 < recvs.len() && recvs[i + 1] == recvs[*i] {
            recvs.remove(i + 1);
        }
    }
    AsyncRun { end, polls, sends, recvs, panic, pendings: p.pendings, injected: inj, written: p.all_written.clone() }
}

fn judge_async(cx: &mut Ctx, cap: CapSpec, pipe_cap: usize, seq: &[Value], run: &AsyncRun, trace: &[(u16, u16)]) {
    let d = cx.d.clone();
    let blen = buf_len(cap, &d);
    let (stream, mask, sizes) = stream_of(&d, seq, blen);
    let replay_fn = || json!({"engine": "io_explore", "policy": CHUNK_POLICY.with(|c| c.get()), "retain": retain_on(), "edit": edit_json(), "mode": "async", "shape": cx.s.id(), "cap": format!("{:?}", cap), "pipe_cap": pipe_cap, "seq": seq.iter().map(|v| format!("{:?}", v)).collect::<Vec<_>>(), "choices": choices_json(trace)});
    if let Some(p) = &run.panic {
        cx.violate(format!("async/panic/{}", panic_site(p)), format!("panic: {} (seq {:?} cap {:?} pipe {})", p, seq, cap, pipe_cap), replay_fn());
        return;
    }
    match &run.end {
        ExecEnd::AllDone => {}
        ExecEnd::Deadlock(t) => {
            cx.violate("async/deadlock".into(), format!("tasks {:?} (0 = sender, 1 = receiver) are pending but nobody will wake them; {} polls; sends {:?} recvs {}", t, run.polls, run.sends.len(), run.recvs.len()), replay_fn());
            return;
        }
        ExecEnd::Horizon => {
            cx.violate("async/no_completion".into(), format!("futures did not complete within {} polls although the pipe made progress", run.polls), replay_fn());
            return;
        }
    }
    // every send completed Ok, with everything handed to the pipe and flushed
    let mut expect_total = 0;
    for (k, (i, out, acc, fl)) in run.sends.iter().enumerate() {
        if *out != SendOut::Ok || *i != k {
            cx.violate("async/send_failed".into(), format!("send {} returned {:?}", i, out), replay_fn());
            return;
        }
        expect_total += sizes[*i];
        if *acc != expect_total {
            cx.violate("async/send_completed_early".into(), format!("send {} completed with {} bytes accepted by the pipe, {} expected", i, acc, expect_total), replay_fn());
            return;
        }
        if *fl != *acc {
            cx.violate("async/send_completed_unflushed".into(), format!("send {} completed but {} accepted bytes were not flushed", i, acc - fl), replay_fn());
            return;
        }
    }
    if run.sends.len() != seq.len() {
        cx.violate("async/send_missing".into(), format!("{} of {} sends completed", run.sends.len(), seq.len()), replay_fn());
        return;
    }
    if !masked_eq(&run.written, &stream, &mask) {
        cx.violate("async/sink_bytes".into(), format!("pipe received {} expected {}", hex(&run.written), hex(&stream)), replay_fn());
        return;
    }
    let mut pos = 0;
    for (i, v) in seq.iter().enumerate() {
        match run.recvs.get(i) {
            Some(RecvOut::Msg { value, size, bytes, problems }) if value == v && *size == sizes[i] && bytes.as_slice() == &run.written[pos..pos + sizes[i]] && problems.is_empty() => {}
            other => {
                cx.violate("async/wrong_message".into(), format!("message {} should be {:?}, got {:?}", i, v, other), replay_fn());
                return;
            }
        }
        pos += sizes[i];
    }
    if !(run.recvs.len() == seq.len() + 1 && run.recvs[seq.len()] == RecvOut::Closed) {
        cx.violate("async/no_closed".into(), format!("after {} messages expected exactly Closed, got {:?}", seq.len(), run.recvs.get(seq.len()..)), replay_fn());
    }
}

fn mode_async(cx: &mut Ctx) {
    let d = cx.d.clone();
    let msgs = pick_messages(&d, cx.thorough);
    let seqs = sequences(&msgs, 2);
    for (cap, seq) in tiny_limit_cases(&d, &msgs) {
        for pc in [1usize, 3, msgs.s.max(1)] {
            let s = cx.s;
            let st = explore(Some(2), 40_000, || run_async(s, cap, &seq, pc, 1, &FaultCfg::off(), &FaultCfg::off()), |t, r| judge_async(cx, cap, pc, &seq, &r, t));
            account(cx, &st, Some(2), 0, "tiny_limit_async");
        }
    }
    let dev = if cx.thorough { 3 } else { 2 };
    let max_execs = if cx.thorough { 1_500_000 } else { 40_000 };
    let s_ = msgs.s.max(1);
    let mut pcs = vec![1, 2, 3, s_, 2 * s_];
    if !cx.thorough {
        pcs = vec![1, 3, s_];
    }
    pcs.sort();
    pcs.dedup();
    let capl = if cx.thorough { caps(msgs.s, d.align(), false) } else { vec![CapSpec::Io(s_), CapSpec::Buf(s_ + 1)] };
    for cap in capl {
        let blen = buf_len(cap, &d);
        for seq in &seqs {
            let (stream, _, _) = stream_of(&d, seq, blen);
            for &pc in &pcs {
                // tiny configurations are explored without a bound
                let bound = if stream.len() <= (if cx.thorough { 6 } else { 4 }) { None } else { Some(dev) };
                let s = cx.s;
                let mut res: Vec<(Vec<(u16, u16)>, AsyncRun)> = vec![];
                let st = explore(bound, max_execs, || run_async(s, cap, seq, pc, 2, &FaultCfg::off(), &FaultCfg::off()), |t, r| res.push((t.to_vec(), r)));
                let mut pend = 0;
                for (t, r) in &res {
                    judge_async(cx, cap, pc, seq, r, t);
                    if r.pendings > 0 {
                        pend += 1;
                    }
                }
                account(cx, &st, bound, stream.len(), "async");
                if !seq.is_empty() {
                    let mut res: Vec<(Vec<(u16, u16)>, AsyncRun)> = vec![];
                    let st = with_retain(|| explore(Some(dev), max_execs, || run_async(s, cap, seq, pc, 2, &FaultCfg::off(), &FaultCfg::off()), |t, r| res.push((t.to_vec(), r))));
                    with_retain(|| {
                        for (t, r) in &res {
                            judge_async(cx, cap, pc, seq, r, t);
                        }
                    });
                    account(cx, &st, Some(dev), stream.len(), "async_retain");
                    // and with every guard initialised with another value, the message assigned through the guard
                    for seed in [msgs.vals[0].clone(), msgs.vals[msgs.vals.len() - 1].clone()] {
                        let mut n = 0u64;
                        let st = with_edit(&seed, || {
                            explore(Some(1), max_execs, || run_async(s, cap, seq, pc, 0, &FaultCfg::off(), &FaultCfg::off()), |t, r| {
                                judge_async(cx, cap, pc, seq, &r, t);
                                n += 1;
                            })
                        });
                        account(cx, &st, Some(1), stream.len(), "async_edit_after_init");
                        cx.acc.count("executions_edit_after_init", n);
                    }
                }
                cx.acc.count("executions_with_pending", pend);
                cx.acc.distinct.insert(format!("{}:{:?}:{}:{}", cx.s.id(), cap, pc, seq.len()));
                if cx.acc.samples.len() < 3 && seq.len() == 2 && pc < s_ {
                    cx.acc.sample(json!({"shape": cx.s.id(), "cap": format!("{:?}", cap), "pipe_capacity": pc, "messages": seq.iter().map(|v| format!("{:?}", v)).collect::<Vec<_>>(), "executions": res.len(), "with_pending": pend, "bound": format!("{:?}", bound), "choice_points_max": st.max_points}));
                }
            }
        }
    }
}

// ============================================================================================
// mode: fault (C09)
// ============================================================================================

fn judge_receiver_faulty(cx: &mut Ctx, mode: &str, cap: CapSpec, seq: &[Value], stream: &[u8], sizes: &[usize], outs: &[RecvOut], panic: &Option<String>, injected: &[(usize, String)], trace: &[(u16, u16)]) {
    let replay_fn = || json!({"engine": "io_explore", "retain": retain_on(), "mode": mode, "side": "receiver", "shape": cx.s.id(), "cap": format!("{:?}", cap), "seq": seq.iter().map(|v| format!("{:?}", v)).collect::<Vec<_>>(), "stream": hex(stream), "choices": choices_json(trace)});
    if let Some(p) = panic {
        let key = if p.contains(HORIZON_MSG) { format!("{}/receiver/hang", mode) } else { format!("{}/receiver/panic/{}", mode, panic_site(p)) };
        cx.violate(key, format!("{} (faults {:?})", p, injected), replay_fn());
        return;
    }
    // delivered messages must be a prefix of the sent sequence, each once, in order
    let mut i = 0;
    let mut pos = 0;
    let mut closed = false;
    let mut read_errs = 0;
    for o in outs {
        match o {
            RecvOut::Msg { value, size, bytes, problems } => {
                if i >= seq.len() || value != &seq[i] || *size != sizes[i] || bytes.as_slice() != &stream[pos..pos + sizes[i]] || !problems.is_empty() {
                    cx.violate(format!("{}/receiver/lost_or_duplicated", mode), format!("result #{} is {:?} size {}, expected message {} {:?} (faults {:?})", i, value, size, i, seq.get(i), injected), replay_fn());
                    return;
                }
                pos += sizes[i];
                i += 1;
            }
            RecvOut::Read(_) => read_errs += 1,
            RecvOut::Closed => closed = true,
            RecvOut::Parse(e) => {
                cx.violate(format!("{}/receiver/parse_error", mode), format!("Parse({}) on a valid stream (faults {:?})", e, injected), replay_fn());
                return;
            }
        }
    }
    let persistent = injected.iter().any(|(_, s)| s.contains("forever"));
    let eof = injected.iter().any(|(_, s)| s.contains("Zero"));
    if !persistent && !eof {
        // only transient read errors: everything must arrive, then Closed
        if i != seq.len() || !closed {
            cx.violate(format!("{}/receiver/lost_after_transient_error", mode), format!("{} of {} messages delivered, closed={} after transient faults {:?} ({} read errors reported)", i, seq.len(), closed, injected, read_errs), replay_fn());
        }
        if read_errs != injected.len() {
            cx.violate(format!("{}/receiver/error_not_reported", mode), format!("{} faults injected {:?} but {} read errors reported", injected.len(), injected, read_errs), replay_fn());
        }
    } else if eof && !persistent && !closed && read_errs < GIVE_UP {
        cx.violate(format!("{}/receiver/eof_not_closed", mode), format!("end of stream injected {:?} but recv never reported Closed: {:?}", injected, outs.last()), replay_fn());
    }
}

fn mode_fault(cx: &mut Ctx) {
    let d = cx.d.clone();
    let msgs = pick_messages(&d, cx.thorough);
    let seqs: Vec<Vec<Value>> = sequences(&msgs, 2).into_iter().filter(|s| !s.is_empty()).collect();
    let kinds = if cx.thorough { vec![io::ErrorKind::Other, io::ErrorKind::Interrupted, io::ErrorKind::WouldBlock, io::ErrorKind::BrokenPipe] } else { vec![io::ErrorKind::Other, io::ErrorKind::Interrupted, io::ErrorKind::WouldBlock] };
    let fc = FaultCfg { enabled: true, kinds, budget: if cx.thorough { 3 } else { 2 } };
    let dev = if cx.thorough { 3 } else { 2 };
    let max_execs = if cx.thorough { 3_000_000 } else { 80_000 };
    let s_ = msgs.s.max(1);
    for cap in [CapSpec::Io(s_), CapSpec::Buf(s_ + 1)] {
        let blen = buf_len(cap, &d);
        for seq in &seqs {
            let (stream, _, sizes) = stream_of(&d, seq, blen);
            let s = cx.s;
            // ---- blocking sender under faults
            let mut res: Vec<(Vec<(u16, u16)>, SendRun)> = vec![];
            let st = explore(Some(dev), max_execs, || run_sender_blocking(s, cap, seq, Kind::Iter, &fc, msgs.s), |t, r| res.push((t.to_vec(), r)));
            let mut faulted = 0;
            for (t, r) in &res {
                judge_sender(cx, "fault", cap, seq, r, t, true);
                if !r.injected.is_empty() {
                    faulted += 1;
                }
            }
            account(cx, &st, Some(dev), stream.len(), "fault_sender");
            cx.acc.count("executions_with_fault", faulted);
            // ---- blocking receiver under faults
            let mut rres: Vec<(Vec<(u16, u16)>, RecvRun)> = vec![];
            let st = explore(Some(dev), max_execs, || run_receiver_blocking(s, cap, &stream, &fc, true), |t, r| rres.push((t.to_vec(), r)));
            let mut faulted = 0;
            for (t, r) in &rres {
                let outs: Vec<RecvOut> = r.outs.iter().map(|o| o.0.clone()).collect();
                judge_receiver_faulty(cx, "fault", cap, seq, &stream, &sizes, &outs, &r.panic, &r.injected, t);
                if !r.injected.is_empty() {
                    faulted += 1;
                }
            }
            account(cx, &st, Some(dev), stream.len(), "fault_receiver");
            cx.acc.count("executions_with_fault", faulted);
            // ---- the same with the receiving side free to retain() a message once (a retained guard followed by
            // a fault, a fault followed by a retained guard)
            {
                let mut n = 0u64;
                let st = with_retain(|| {
                    explore(Some(dev), max_execs, || run_receiver_blocking(s, cap, &stream, &fc, true), |t, r| {
                        if t.iter().any(|(c, a)| *c == 1 && *a == 2) {
                            let outs: Vec<RecvOut> = r.outs.iter().map(|o| o.0.clone()).collect();
                            judge_receiver_faulty(cx, "fault", cap, seq, &stream, &sizes, &outs, &r.panic, &r.injected, t);
                            n += 1;
                        }
                    })
                });
                account(cx, &st, Some(dev), stream.len(), "fault_receiver_retain");
                cx.acc.count("executions_with_retain", n);
            }
            // ---- async pair under faults (writer side and reader side separately)
            // small pipes: a write is accepted in part, the next one is Pending, the fault arrives on a later poll
            for pc_small in [1usize, 3] {
                if pc_small >= s_ {
                    continue;
                }
                let wf = fc.clone();
                let mut n = 0u64;
                let st = explore(Some(dev), max_execs, || run_async(s, cap, seq, pc_small, 1, &wf, &FaultCfg::off()), |t, r| {
                    judge_async_faulty(cx, cap, seq, &stream, &sizes, &r, t, "async_writer");
                    n += 1;
                });
                account(cx, &st, Some(dev), stream.len(), "async_writer_small_pipe");
                cx.acc.count("executions_small_pipe_faults", n);
            }
            for (wf, rf, side) in [(fc.clone(), FaultCfg::off(), "async_writer"), (FaultCfg::off(), fc.clone(), "async_reader")] {
                let mut ares: Vec<(Vec<(u16, u16)>, AsyncRun)> = vec![];
                let st = explore(Some(dev), max_execs, || run_async(s, cap, seq, s_, 0, &wf, &rf), |t, r| ares.push((t.to_vec(), r)));
                let mut faulted = 0;
                for (t, r) in &ares {
                    judge_async_faulty(cx, cap, seq, &stream, &sizes, r, t, side);
                    if !r.injected.is_empty() {
                        faulted += 1;
                    }
                }
                account(cx, &st, Some(dev), stream.len(), side);
                cx.acc.count("executions_with_fault", faulted);
            }
            cx.acc.distinct.insert(format!("{}:{:?}:{}", cx.s.id(), cap, seq.len()));
            if cx.acc.samples.len() < 3 {
                cx.acc.sample(json!({"shape": cx.s.id(), "cap": format!("{:?}", cap), "messages": seq.iter().map(|v| format!("{:?}", v)).collect::<Vec<_>>(), "fault_alphabet": format!("{:?} + Ok(0)/EOF, once or forever", fc.kinds), "fault_budget": fc.budget, "sender_scripts": res.len(), "receiver_scripts": rres.len()}));
            }
        }
    }
}

fn judge_async_faulty(cx: &mut Ctx, cap: CapSpec, seq: &[Value], stream: &[u8], sizes: &[usize], run: &AsyncRun, trace: &[(u16, u16)], side: &str) {
    let d = cx.d.clone();
    let blen = buf_len(cap, &d);
    let replay_fn = || json!({"engine": "io_explore", "retain": retain_on(), "mode": "fault", "side": side, "shape": cx.s.id(), "cap": format!("{:?}", cap), "seq": seq.iter().map(|v| format!("{:?}", v)).collect::<Vec<_>>(), "choices": choices_json(trace)});
    if let Some(p) = &run.panic {
        let errored = run.sends.iter().any(|s| s.1 != SendOut::Ok);
        if p.contains(HORIZON_MSG) {
            cx.violate(format!("fault/{}/hang", side), format!("a future kept calling the failing pipe without ever completing (faults {:?})", run.injected), replay_fn());
        } else if !(errored && p.contains("poisoned")) {
            cx.violate(format!("fault/{}/panic/{}", side, panic_site(p)), format!("panic: {} (faults {:?})", p, run.injected), replay_fn());
        }
        return;
    }
    match &run.end {
        ExecEnd::AllDone => {}
        ExecEnd::Deadlock(t) => {
            cx.violate(format!("fault/{}/deadlock", side), format!("tasks {:?} pending forever (faults {:?})", t, run.injected), replay_fn());
            return;
        }
        ExecEnd::Horizon => {
            cx.violate(format!("fault/{}/hang", side), format!("no completion within {} polls (faults {:?}): an error was retried forever", run.polls, run.injected), replay_fn());
            return;
        }
    }
    // sink shape: whole messages then at most one partial, each attempt a prefix of its image
    let mut prev = 0usize;
    let mut partial = false;
    for (i, out, acc, _fl) in &run.sends {
        let img = encode(&d, &seq[*i], blen, 0).unwrap();
        let wrote = &run.written[prev.min(run.written.len())..(*acc).min(run.written.len())];
        if partial && !wrote.is_empty() {
            cx.violate(format!("fault/{}/bytes_after_partial", side), format!("bytes reached the pipe after a partial message (faults {:?})", run.injected), replay_fn());
            return;
        }
        if wrote.len() > img.extent || !masked_eq(wrote, &img.bytes[..wrote.len()], &img.mask[..wrote.len()]) {
            cx.violate(format!("fault/{}/sink_bytes", side), format!("attempt for message {} wrote {}, image {}", i, hex(wrote), hex(&img.bytes[..img.extent])), replay_fn());
            return;
        }
        if *out == SendOut::Ok && wrote.len() != img.extent {
            cx.violate(format!("fault/{}/ok_but_incomplete", side), format!("send {} Ok with {} of {} bytes", i, wrote.len(), img.extent), replay_fn());
            return;
        }
        if *out != SendOut::Ok && !wrote.is_empty() && wrote.len() < img.extent {
            partial = true;
        }
        prev = *acc;
    }
    // receiver: what it got must be a prefix of what was actually written, message by message
    let outs = run.recvs.clone();
    let wrote_whole: Vec<Value> = {
        // decode the written stream message by message (it is whole messages + maybe a partial)
        let mut v = vec![];
        let mut p = 0;
        while p < run.written.len() {
            match decode(&d, &run.written[p..]) {
                Ok(dd) if dd.extent > 0 => {
                    v.push((dd.value, dd.extent));
                    p += v.last().unwrap().1;
                }
                _ => break,
            }
        }
        v.into_iter().map(|x| x.0).collect()
    };
    let mut k = 0;
    for o in &outs {
        if let RecvOut::Msg { value, .. } = o {
            if k >= wrote_whole.len() || value != &wrote_whole[k] {
                cx.violate(format!("fault/{}/lost_or_duplicated", side), format!("received {:?} as message {}, the pipe carried {:?} (faults {:?})", value, k, wrote_whole, run.injected), replay_fn());
                return;
            }
            k += 1;
        }
        if let RecvOut::Parse(e) = o {
            cx.violate(format!("fault/{}/parse_error", side), format!("Parse({}) although only whole messages and a truncated tail were sent (faults {:?})", e, run.injected), replay_fn());
            return;
        }
    }
    let _ = (stream, sizes);
    let reader_faults = side == "async_reader";
    let persistent = run.injected.iter().any(|(_, s)| s.contains("forever"));
    let eof = run.injected.iter().any(|(_, s)| s.contains("Zero"));
    if reader_faults && !persistent && !eof && k != wrote_whole.len() {
        cx.violate(format!("fault/{}/lost_after_transient_error", side), format!("{} of {} messages delivered after transient read faults {:?}", k, wrote_whole.len(), run.injected), replay_fn());
    }
}

// ============================================================================================
// mode: hostile (C10)
// ============================================================================================

#[derive(Debug, Clone, PartialEq)]
enum Verdict {
    Msg(Value, usize),
    Parse,
    /// Parse | OutOfMemory | Closed all acceptable (framing errors)
    AnyError,
    Closed,
    Oom,
    ClosedOrOom,
}

/// Expected result of the next recv for the remaining stream `r` with buffer capacity `c`.
fn expect_next(d: &Desc, r: &[u8], c: usize) -> Vec<Verdict> {
    let mut classes: Vec<(usize, Result<(Value, usize), Reject>)> = vec![];
    for k in 0..=r.len().min(c) {
        let v = decode(d, &r[..k]).map(|x| (x.value, x.extent));
        if !matches!(v, Err(Reject::Short)) {
            classes.push((k, v));
        }
    }
    if classes.is_empty() {
        // a full buffer that still does not hold a message is reported as exhaustion before the end
        // of the stream can be noticed
        return if r.len() >= c { vec![Verdict::Oom, Verdict::ClosedOrOom] } else { vec![Verdict::Closed] };
    }
    // verdicts for every k from the first decisive one on; if the reference is not stable the union is accepted
    let mut out: Vec<Verdict> = vec![];
    for (_, v) in &classes {
        let x = match v {
            Ok((val, ext)) => Verdict::Msg(val.clone(), *ext),
            Err(Reject::Content { .. }) => Verdict::Parse,
            // the chain of a FlexVec contradicts itself (an item that cannot fit its sealed slot, an offset smaller
            // than a slot, a misaligned offset): the message is complete as far as its own framing goes and no
            // further input can repair it — the last clause of C10 asks for a parse error, not for more input
            Err(Reject::Framing { .. }) => Verdict::Parse,
            Err(Reject::Short) => unreachable!(),
        };
        if !out.contains(&x) {
            out.push(x);
        }
    }
    // A content error in a message that is not COMPLETE yet (its own length fields announce more bytes than the
    // stream / the buffer will ever hold): the property demands a parse error only for a complete malformed
    // message; a receiver that validates the fields in another order asks for more input first and then
    // reports the end of the stream or the full buffer. Both are accepted.
    if out.contains(&Verdict::Parse) {
        let ld = refmodel::lenient(d);
        let avail = r.len().min(c);
        if (0..=avail).all(|k| matches!(decode(&ld, &r[..k]), Err(Reject::Short))) {
            for v in if r.len() >= c { vec![Verdict::Oom, Verdict::ClosedOrOom] } else { vec![Verdict::Closed] } {
                if !out.contains(&v) {
                    out.push(v);
                }
            }
        }
    }
    // a decisive verdict that only appears beyond some prefixes may be preceded by Short ones: then
    // running out of input first is also legitimate
    let first_k = classes[0].0;
    if first_k > r.len() {
        out.push(Verdict::Closed);
    }
    out
}

fn hostile_streams(d: &Desc, thorough: bool) -> Vec<(Vec<u8>, &'static str)> {
    let mut out: Vec<(Vec<u8>, &'static str)> = vec![];
    // (i) raw strings
    let alpha = [0x00u8, 0x01, 0x02, 0xFF, (d.min_size() + d.align()) as u8];
    let nmax = if thorough { 6 } else { 4 };
    for len in 0..=nmax {
        for code in 0..5usize.pow(len as u32) {
            let mut c = code;
            out.push(((0..len).map(|_| { let b = alpha[c % 5]; c /= 5; b }).collect(), "raw"));
        }
    }
    // (ii) valid streams, mutated
    let msgs = pick_messages(d, thorough);
    let avail = d.min_size() + 2 * d.align() + 8;
    let imgs: Vec<Vec<u8>> = msgs.vals.iter().map(|v| { let i = encode(d, v, avail, 0).unwrap(); i.bytes[..i.extent].to_vec() }).collect();
    let mut bases: Vec<Vec<u8>> = imgs.clone();
    for a in &imgs {
        for b in &imgs {
            let mut x = a.clone();
            x.extend_from_slice(b);
            bases.push(x);
        }
    }
    for b in &bases {
        out.push((b.clone(), "valid"));
        for k in 0..b.len() {
            out.push((b[..k].to_vec(), "truncated"));
        }
        if let Ok((_, fields)) = decode_tree(d, b) {
            for f in &fields {
                let maxv: u128 = if f.size >= 16 { u128::MAX } else { (1u128 << (8 * f.size)) - 1 };
                let mut muts: Vec<u128> = vec![0, 1, f.cur.wrapping_sub(1), f.cur + 1, f.cur + d.align() as u128, 2, 0x7f, 0x80, maxv - 1, maxv, (2 * msgs.s) as u128, (4 * msgs.s + 1) as u128];
                muts.retain(|m| *m <= maxv && *m != f.cur);
                muts.sort();
                muts.dedup();
                for m in muts {
                    let mut x = b.clone();
                    refmodel::write_uint(&mut x[f.at..f.at + f.size], m, f.be);
                    out.push((x, "mutated"));
                }
            }
        }
    }
    let mut seen = std::collections::HashSet::new();
    out.retain(|(b, _)| seen.insert(b.clone()));
    out
}

fn judge_hostile(cx: &mut Ctx, variant: &str, cap: CapSpec, stream: &[u8], origin: &str, outs: &[RecvOut], panic: &Option<String>, end: Option<&ExecEnd>, trace: &[(u16, u16)]) {
    let d = cx.d.clone();
    let c = buf_len(cap, &d);
    let replay_fn = || json!({"engine": "io_explore", "policy": CHUNK_POLICY.with(|c| c.get()), "retain": retain_on(), "mode": "hostile", "variant": variant, "shape": cx.s.id(), "cap": format!("{:?}", cap), "stream": hex(stream), "origin": origin, "choices": choices_json(trace)});
    if let Some(p) = panic {
        let key = if p.contains(HORIZON_MSG) { format!("hostile/{}/hang", variant) } else { format!("hostile/{}/panic/{}", variant, panic_site(p)) };
        cx.violate(key, format!("{} on stream {} ({}) cap {:?} after {} results", p, hex(stream), origin, cap, outs.len()), replay_fn());
        return;
    }
    match end {
        Some(ExecEnd::Deadlock(_)) => {
            cx.violate(format!("hostile/{}/deadlock", variant), format!("recv future never woken on stream {}", hex(stream)), replay_fn());
            return;
        }
        Some(ExecEnd::Horizon) => {
            cx.violate(format!("hostile/{}/spin", variant), format!("recv did not terminate on stream {}", hex(stream)), replay_fn());
            return;
        }
        _ => {}
    }
    let mut pos = 0usize;
    for (n, o) in outs.iter().enumerate() {
        let exp = expect_next(&d, &stream[pos.min(stream.len())..], c);
        let ok = match o {
            RecvOut::Msg { value, size, bytes, problems } => {
                if !problems.is_empty() || pos + *size > stream.len() || bytes.as_slice() != &stream[pos..pos + *size] {
                    cx.violate(format!("hostile/{}/bad_message", variant), format!("result #{} on stream {}: message {:?} size {} bytes {} problems {:?} does not lie inside the received bytes at {}", n, hex(stream), value, size, hex(bytes), problems, pos), replay_fn());
                    return;
                }
                let good = exp.iter().any(|e| matches!(e, Verdict::Msg(v, s) if v == value && s == size));
                pos += *size;
                good
            }
            RecvOut::Parse(_) => exp.iter().any(|e| matches!(e, Verdict::Parse | Verdict::AnyError)),
            RecvOut::Closed => exp.iter().any(|e| matches!(e, Verdict::Closed | Verdict::ClosedOrOom | Verdict::AnyError)),
            RecvOut::Read(k) => *k == io::ErrorKind::OutOfMemory && exp.iter().any(|e| matches!(e, Verdict::Oom | Verdict::ClosedOrOom | Verdict::AnyError)),
        };
        if !ok {
            let what = match o {
                RecvOut::Msg { .. } => "unexpected_message",
                RecvOut::Parse(_) => "unexpected_parse_error",
                RecvOut::Closed => "closed_instead",
                RecvOut::Read(_) => "read_error_instead",
            };
            let wanted = if exp.iter().any(|e| matches!(e, Verdict::Parse)) { "parse" } else if exp.iter().any(|e| matches!(e, Verdict::Msg(..))) { "message" } else { "closed" };
            cx.violate(format!("hostile/{}/{}/wanted_{}", variant, what, wanted), format!("result #{} on stream {} ({}) at position {} cap {:?}: got {:?}, reference expects one of {:?}", n, hex(stream), origin, pos, cap, o, exp), replay_fn());
            return;
        }
        if !matches!(o, RecvOut::Msg { .. }) {
            break;
        }
    }
    if outs.is_empty() {
        cx.violate(format!("hostile/{}/no_result", variant), "recv produced nothing".into(), replay_fn());
    }
}

fn run_receiver_async_only(s: &dyn IoShape, cap: CapSpec, stream: &[u8]) -> (Vec<RecvOut>, Option<String>, ExecEnd) {
    reset_chunk_calls();
    let pipe = APipe::new(stream.len().max(1), 1);
    {
        let mut p = pipe.borrow_mut();
        p.call_horizon += 4 * stream.len();
        p.buf.extend(stream.iter());
        p.writer_closed = true;
    }
    let recvs: Rc<RefCell<Vec<RecvOut>>> = Rc::new(RefCell::new(vec![]));
    let r1 = recvs.clone();
    let horizon = 16 + 6 * (stream.len() + 2);
    let r = catch(|| {
        let rctl = Box::new(move |o: &RecvOut| {
            r1.borrow_mut().push(o.clone());
            if r1.borrow().len() <= 64 && matches!(o, RecvOut::Msg { .. }) {
                Go::Next
            } else {
                Go::Stop
            }
        });
        let rt = s.recv_async(Box::new(ARead { p: pipe.clone(), cfg: FaultCfg::off() }), cap, rctl);
        run_tasks(vec![Some(rt)], horizon)
    });
    let outs = recvs.borrow().clone();
    match r {
        Ok((e, _)) => (outs, None, e),
        Err(p) => (outs, Some(p), ExecEnd::AllDone),
    }
}

fn mode_hostile(cx: &mut Ctx) {
    let d = cx.d.clone();
    if d.min_size() == 0 {
        return;
    }
    let msgs = pick_messages(&d, cx.thorough);
    let s_ = msgs.s.max(1);
    let streams = hostile_streams(&d, cx.thorough);
    let full_len = if cx.thorough { 10 } else { 7 };
    let dev = 2;
    let max_execs = if cx.thorough { 400_000 } else { 20_000 };
    for cap in [CapSpec::Io(s_), CapSpec::Buf(s_ + 1)] {
        for (stream, origin) in &streams {
            let bound = if stream.len() <= full_len { None } else { Some(dev) };
            let s = cx.s;
            // blocking receiver
            let mut rres: Vec<(Vec<(u16, u16)>, RecvRun)> = vec![];
            let st = explore(bound, max_execs, || run_receiver_blocking(s, cap, stream, &FaultCfg::off(), true), |t, r| rres.push((t.to_vec(), r)));
            for (t, r) in &rres {
                let outs: Vec<RecvOut> = r.outs.iter().map(|o| o.0.clone()).collect();
                judge_hostile(cx, "blocking", cap, stream, origin, &outs, &r.panic, None, t);
                cx.acc.distinct.insert(format!("{}:{}:{:?}", family(cx.s.id()), origin, outs.last().map(|o| std::mem::discriminant(o))));
            }
            account(cx, &st, bound, stream.len(), "hostile_blocking");
            if stream.len() >= 2 {
                let mut n = 0u64;
                let st = with_retain(|| {
                    explore(Some(dev), max_execs, || run_receiver_blocking(s, cap, stream, &FaultCfg::off(), true), |t, r| {
                        if t.iter().any(|(c, a)| *c == 1 && *a == 2) {
                            let outs: Vec<RecvOut> = r.outs.iter().map(|o| o.0.clone()).collect();
                            judge_hostile(cx, "blocking", cap, stream, origin, &outs, &r.panic, None, t);
                            n += 1;
                        }
                    })
                });
                account(cx, &st, Some(dev), stream.len(), "hostile_blocking_retain");
                cx.acc.count("executions_with_retain", n);
            }
            // async receiver (deviation bounded: the schedule space is larger)
            let mut ares: Vec<(Vec<(u16, u16)>, (Vec<RecvOut>, Option<String>, ExecEnd))> = vec![];
            let abound = if stream.len() <= 5 { None } else { Some(dev) };
            let st = explore(abound, max_execs, || run_receiver_async_only(s, cap, stream), |t, r| ares.push((t.to_vec(), r)));
            for (t, (outs, p, e)) in &ares {
                judge_hostile(cx, "async", cap, stream, origin, outs, p, Some(e), t);
            }
            account(cx, &st, abound, stream.len(), "hostile_async");
        }
        cx.acc.count("streams", streams.len() as u64);
    }
    if let Some((s, o)) = streams.iter().find(|(_, o)| *o == "mutated") {
        cx.acc.sample(json!({"shape": cx.s.id(), "stream": hex(s), "origin": o, "streams_total": streams.len()}));
    }
}

// ============================================================================================

fn parse_choices(j: &serde_json::Value) -> Vec<(u16, u16)> {
    j.as_array().map(|a| a.iter().map(|p| (p[0].as_u64().unwrap() as u16, p[1].as_u64().unwrap() as u16)).collect()).unwrap_or_default()
}

// ============================================================================================
// beyond the small scope: messages of hundreds (T: thousands) of bytes, streams of 70 messages
// ============================================================================================

/// one message per target size (first ladder value whose image reaches it)
fn huge_messages(d: &Desc, thorough: bool) -> Vec<(Value, usize)> {
    let targets: &[usize] = if thorough { &[140, 300, 1100, 4200] } else { &[140, 300] };
    let mut out: Vec<(Value, usize)> = vec![];
    for t in targets {
        for nn in refmodel::values::scale_ladder(true) {
            if let Some(v) = refmodel::values::scaled_value(d, nn) {
                if let Ok(i) = encode(d, &v, nn * 64 + 4096, 0) {
                    if i.extent >= *t {
                        if out.iter().all(|(_, e)| *e != i.extent) {
                            out.push((v, i.extent));
                        }
                        break;
                    }
                }
            } else {
                break;
            }
        }
    }
    out
}

/// the default chunk sizes of a long run: as much as fits, one byte, and sizes around the thresholds a
/// maintainer would pick (a byte counter, a page of 256)
const LONG_POLICIES: [usize; 8] = [0, 1, 7, 100, 255, 256, 257, 3];

/// deviations are only affordable where an execution has few choice points
fn long_bound(policy: usize, stream_len: usize) -> usize {
    let calls = if policy == 0 { 8 } else { stream_len / policy + 2 };
    if calls <= 12 && stream_len <= 1400 {
        1
    } else {
        0
    }
}

fn long_scenarios(d: &Desc, msgs: &Msgs, thorough: bool) -> Vec<(Vec<Value>, usize, &'static str)> {
    // (sequence, largest message size, label)
    let mut out = vec![];
    for (v, e) in huge_messages(d, thorough) {
        out.push((vec![msgs.vals[0].clone(), v.clone(), msgs.vals[msgs.vals.len() - 1].clone()], e.max(msgs.s), "huge_between_small"));
        out.push((vec![v.clone(), v.clone()], e.max(msgs.s), "huge_twice"));
    }
    let n = if thorough { 150 } else { 70 };
    out.push(((0..n).map(|i| msgs.vals[(i + i / 4) % msgs.vals.len()].clone()).collect(), msgs.s, "long_sequence"));
    out
}

fn mode_long_blocking(cx: &mut Ctx) {
    let d = cx.d.clone();
    let msgs = pick_messages(&d, cx.thorough);
    let max_execs = if cx.thorough { 200_000 } else { 20_000 };
    for (seq, s_max, label) in long_scenarios(&d, &msgs, cx.thorough) {
        for cap in [CapSpec::Io(s_max.max(1)), CapSpec::Buf(s_max.max(1) + 1)] {
            let blen = buf_len(cap, &d);
            let (stream, _m, sizes) = stream_of(&d, &seq, blen);
            for policy in LONG_POLICIES {
                if policy > stream.len() {
                    continue;
                }
                let dev = long_bound(policy, stream.len());
                let s = cx.s;
                // judged as they come (nothing is collected: a run holds kilobytes)
                let mut sink = None;
                let mut n_runs = 0u64;
                let st = with_policy(policy, || {
                    explore(Some(dev), max_execs, || run_sender_blocking(s, cap, &seq, Kind::Iter, &FaultCfg::off(), s_max), |t, r| {
                        judge_sender(cx, "blocking", cap, &seq, &r, t, false);
                        if t.iter().all(|(c, _)| *c == 0) {
                            sink = Some(r.sink.clone());
                        }
                        n_runs += 1;
                    })
                });
                account(cx, &st, Some(dev), stream.len(), "long_sender");
                let real = sink.filter(|x| x.len() == stream.len()).unwrap_or(stream.clone());
                let st = with_policy(policy, || {
                    explore(Some(dev), max_execs, || run_receiver_blocking(s, cap, &real, &FaultCfg::off(), true), |t, r| {
                        judge_receiver_exact(cx, "blocking", cap, &seq, &real, &sizes, &r, t);
                        n_runs += 1;
                    })
                });
                account(cx, &st, Some(dev), stream.len(), "long_receiver");
                cx.acc.distinct.insert(format!("{}:long:{}:{}:{:?}", cx.s.id(), label, policy, cap));
                cx.acc.count("long_runs", n_runs);
            }
        }
    }
}

fn mode_long_async(cx: &mut Ctx) {
    let d = cx.d.clone();
    let msgs = pick_messages(&d, cx.thorough);
    let max_execs = if cx.thorough { 100_000 } else { 8_000 };
    for (seq, s_max, label) in long_scenarios(&d, &msgs, cx.thorough) {
        let cap = CapSpec::Io(s_max.max(1));
        let blen = buf_len(cap, &d);
        let (stream, _m, _sizes) = stream_of(&d, &seq, blen);
        for policy in [0usize, 1, 100, 256, 257] {
            if policy > stream.len() {
                continue;
            }
            for pc in [3usize, 100, 300, 2 * s_max.max(1)] {
                if pc > 2 * stream.len() || (policy == 1 && pc > 3) {
                    continue;
                }
                // the schedule of two tasks multiplies the choice points: deviations only for the coarse runs
                let dev = if (policy == 0 || policy >= 100) && pc >= 100 && stream.len() <= 1400 { 1 } else { 0 };
                let s = cx.s;
                let mut n_runs = 0u64;
                let st = with_policy(policy, || {
                    explore(Some(dev), max_execs, || run_async(s, cap, &seq, pc, 0, &FaultCfg::off(), &FaultCfg::off()), |t, r| {
                        judge_async(cx, cap, pc, &seq, &r, t);
                        n_runs += 1;
                    })
                });
                account(cx, &st, Some(dev), stream.len(), "long_async");
                cx.acc.distinct.insert(format!("{}:long:{}:{}:{}", cx.s.id(), label, policy, pc));
                cx.acc.count("long_runs", n_runs);
            }
        }
    }
}

/// C10 at length: a long valid prefix (70 messages) followed by nothing / a truncated message / a malformed
/// one, delivered byte by byte and in large chunks, to both receivers
fn mode_long_hostile(cx: &mut Ctx) {
    let d = cx.d.clone();
    if d.min_size() == 0 {
        return;
    }
    let msgs = pick_messages(&d, cx.thorough);
    let s_ = msgs.s.max(1);
    let cap = CapSpec::Io(s_);
    let blen = buf_len(cap, &d);
    let n = if cx.thorough { 150 } else { 70 };
    let seq: Vec<Value> = (0..n).map(|i| msgs.vals[(i + i / 4) % msgs.vals.len()].clone()).collect();
    let (valid, _m, _sizes) = stream_of(&d, &seq, blen);
    let mut streams: Vec<(Vec<u8>, &'static str)> = vec![(valid.clone(), "long_valid")];
    // tails taken from the small hostile set: truncated and malformed single messages
    for (t, o) in hostile_streams(&d, false).into_iter().filter(|(t, o)| !t.is_empty() && (*o == "mutated" || *o == "truncated")).take(6) {
        let mut st = valid.clone();
        st.extend_from_slice(&t);
        streams.push((st, if o == "mutated" { "long_then_mutated" } else { "long_then_truncated" }));
    }
    // streams that END exactly at pipe read number R (one byte per read before that): a prefix of the valid
    // stream cut at a message boundary so that read R delivers the rest of its last message
    let mut bounds = vec![0usize];
    {
        let mut pos = 0;
        for v in &seq {
            pos += msg_size(cx.s, v);
            bounds.push(pos);
        }
    }
    let mut runs: Vec<(Vec<u8>, &'static str, usize)> = vec![];
    for (st, o) in &streams {
        for policy in [1usize, 0, 7] {
            runs.push((st.clone(), *o, policy));
        }
    }
    for r in [8usize, 16, 32, 33, 63, 64, 65, 100, 127, 128, 129, 200, 255, 256, 257] {
        if let Some(end) = bounds.iter().find(|b| **b >= r) {
            if *end <= valid.len() {
                runs.push((valid[..*end].to_vec(), "ends_at_read_r", SWITCH_BASE + r - 1));
                // the same with a truncated message behind it (the receiver must still hand out the complete ones)
                if *end + 1 <= valid.len() {
                    runs.push((valid[..*end + 1].to_vec(), "ends_at_read_r_plus_fragment", SWITCH_BASE + r - 1));
                }
            }
        }
    }
    let max_execs = 4_000;
    for (stream, origin, policy) in &runs {
        let policy = *policy;
        {
            let s = cx.s;
            let mut rres: Vec<(Vec<(u16, u16)>, RecvRun)> = vec![];
            let st = with_policy(policy, || explore(Some(0), max_execs, || run_receiver_blocking(s, cap, stream, &FaultCfg::off(), true), |t, r| rres.push((t.to_vec(), r))));
            for (t, r) in &rres {
                let outs: Vec<RecvOut> = r.outs.iter().map(|o| o.0.clone()).collect();
                with_policy(policy, || judge_hostile(cx, "blocking", cap, stream, origin, &outs, &r.panic, None, t));
            }
            account(cx, &st, Some(0), stream.len(), "long_hostile_blocking");
            let mut ares: Vec<(Vec<(u16, u16)>, (Vec<RecvOut>, Option<String>, ExecEnd))> = vec![];
            let st = with_policy(policy, || explore(Some(0), max_execs, || run_receiver_async_only(s, cap, stream), |t, r| ares.push((t.to_vec(), r))));
            for (t, (outs, p, e)) in &ares {
                with_policy(policy, || judge_hostile(cx, "async", cap, stream, origin, outs, p, Some(e), t));
            }
            account(cx, &st, Some(0), stream.len(), "long_hostile_async");
            cx.acc.count("long_runs", (rres.len() + ares.len()) as u64);
        }
    }
}

fn main() {
    let args: Args = report::parse_args();
    report::install(if args.replay.is_some() { 0 } else { 30 });
    let mut mode = "blocking".to_string();
    let mut it = args.rest.iter();
    while let Some(x) = it.next() {
        if x == "--mode" {
            mode = it.next().cloned().unwrap_or(mode);
        }
    }
    let shapes: Vec<&'static dyn IoShape> = shapes::io_shapes().into_iter().map(|b| &*Box::leak(b)).collect();
    if let Some(path) = &args.replay {
        let j: serde_json::Value = serde_json::from_str(&std::fs::read_to_string(path).unwrap()).unwrap();
        let case = if j.get("replay").is_some() { j["replay"].clone() } else { j };
        std::process::exit(replay_case(&shapes, &case));
    }
    let prop: &'static str = match mode.as_str() {
        "blocking" => "C07",
        "async" => "C08",
        "fault" => "C09",
        _ => "C10",
    };
    let rep = Report::new("io_explore", &args.tier);
    let next = AtomicUsize::new(0);
    let shapes: Vec<&'static dyn IoShape> = shapes.into_iter().filter(|s| args.only.as_ref().map_or(true, |o| s.id().contains(o.as_str()))).collect();
    let out = Mutex::new(());
    std::thread::scope(|sc| {
        for _ in 0..args.threads.min(shapes.len()).max(1) {
            sc.spawn(|| loop {
                let i = next.fetch_add(1, Ordering::Relaxed);
                if i >= shapes.len() {
                    report::journal_idle();
                    break;
                }
                let s = shapes[i];
                report::journal(format!("io_explore mode={} shape={}", mode, s.id()).as_bytes());
                let mut cx = Ctx { s, d: s.desc(), thorough: args.thorough(), acc: PropAcc::default(), prop };
                match mode.as_str() {
                    "blocking" => {
                        mode_blocking(&mut cx);
                        mode_blocking_trickle(&mut cx);
                        mode_long_blocking(&mut cx);
                    }
                    "async" => {
                        mode_async(&mut cx);
                        mode_async_trickle(&mut cx);
                        mode_long_async(&mut cx);
                    }
                    "fault" => mode_fault(&mut cx),
                    _ => {
                        mode_hostile(&mut cx);
                        mode_long_hostile(&mut cx);
                    }
                }
                cx.acc.exhaustive = cx.acc.caps.is_empty();
                let _g = out.lock().unwrap();
                rep.merge(cx.prop, cx.acc);
                report::journal_idle();
            });
        }
    });
    rep.write(&args.out);
    let j = rep.to_json();
    if let Some(p) = j["props"].get(prop) {
        println!("engine=io_explore mode={} prop={} executions={} distinct={} violation_classes={}", mode, prop, p["evaluations"], p["distinct_nontrivial"], p["violations"].as_array().unwrap().len());
        for x in p["violations"].as_array().unwrap().iter().take(50) {
            println!("  VCLASS {} x{} :: {}", x["key"].as_str().unwrap(), x["count"], x["detail"].as_str().unwrap());
        }
    }
    std::process::exit(0);
}

fn parse_cap(s: &str) -> CapSpec {
    let n: usize = s.chars().filter(|c| c.is_ascii_digit()).collect::<String>().parse().unwrap_or(8);
    if s.starts_with("Io") {
        CapSpec::Io(n)
    } else {
        CapSpec::Buf(n)
    }
}

fn replay_case(shapes: &[&'static dyn IoShape], case: &serde_json::Value) -> i32 {
    let id = case["shape"].as_str().unwrap_or("");
    let s = match shapes.iter().find(|s| s.id() == id) {
        Some(s) => *s,
        None => {
            println!("replay: unknown shape {}", id);
            return 2;
        }
    };
    let d = s.desc();
    let cap = parse_cap(case["cap"].as_str().unwrap_or("Io(8)"));
    let choices = parse_choices(&case["choices"]);
    let mode = case["mode"].as_str().unwrap_or("blocking").to_string();
    let side = case["side"].as_str().unwrap_or("").to_string();
    // messages are re-enumerated and matched by their printed form
    let mut pool: Vec<Value> = vec![];
    for th in [false, true] {
        pool.extend(pick_messages(&d, th).vals);
    }
    pool.extend(large_message(&d));
    pool.extend(huge_messages(&d, true).into_iter().map(|(v, _)| v));
    CHUNK_POLICY.with(|c| c.set(case["policy"].as_u64().unwrap_or(0) as usize));
    RETAIN.with(|r| r.set(case["retain"].as_bool().unwrap_or(false)));
    if let Some(e) = case["edit"].as_str() {
        let seed = pool.iter().find(|v| format!("{:?}", v) == e).cloned();
        harness::EDIT_AFTER_INIT.with(|x| *x.borrow_mut() = seed);
    }
    let seq: Vec<Value> = case["seq"].as_array().map(|a| a.iter().filter_map(|x| pool.iter().find(|v| format!("{:?}", v) == x.as_str().unwrap_or("")).cloned()).collect()).unwrap_or_default();
    let thorough = true;
    let mut msgs = pick_messages(&d, thorough);
    if let Some(big) = large_message(&d) {
        msgs.s = msgs.s.max(encode(&d, &big, 4096, 0).map(|i| i.extent).unwrap_or(0));
    }
    for v in &seq {
        msgs.s = msgs.s.max(encode(&d, v, 1 << 20, 0).map(|i| i.extent).unwrap_or(0));
    }
    let kinds = vec![io::ErrorKind::Other, io::ErrorKind::Interrupted, io::ErrorKind::WouldBlock, io::ErrorKind::BrokenPipe];
    let mut verdicts = vec![];
    for round in 0..2 {
        let mut cx = Ctx { s, d: d.clone(), thorough, acc: PropAcc::default(), prop: "replay" };
        // the fault alphabet of the tier that recorded the case is recovered from the arities
        let fc_for = |q: bool| FaultCfg { enabled: true, kinds: if q { kinds[..3].to_vec() } else { kinds.clone() }, budget: if q { 2 } else { 3 } };
        let quick_alpha = choices.iter().any(|(_, a)| *a == 7);
        let fc = fc_for(quick_alpha);
        match (mode.as_str(), side.as_str()) {
            ("blocking", "sender") | ("fault", "sender") => {
                let f = if mode == "fault" { fc.clone() } else { FaultCfg::off() };
                let (t, r) = replay(&choices, || run_sender_blocking(s, cap, &seq, Kind::Iter, &f, msgs.s));
                if round == 0 {
                    println!("sender run: outs {:?}\n  sink {}\n  panic {:?}\n  faults {:?}", r.outs, hex(&r.sink), r.panic, r.injected);
                }
                judge_sender(&mut cx, &mode, cap, &seq, &r, &t, mode == "fault");
            }
            ("blocking", "receiver") | ("fault", "receiver") => {
                let stream = harness::report::unhex(case["stream"].as_str().unwrap_or(""));
                let f = if mode == "fault" { fc.clone() } else { FaultCfg::off() };
                let (t, r) = replay(&choices, || run_receiver_blocking(s, cap, &stream, &f, true));
                if round == 0 {
                    println!("receiver run on {}: {:?}\n  panic {:?} faults {:?}", hex(&stream), r.outs, r.panic, r.injected);
                }
                let (_, _, sizes) = stream_of(&d, &seq, buf_len(cap, &d));
                if mode == "fault" {
                    let outs: Vec<RecvOut> = r.outs.iter().map(|o| o.0.clone()).collect();
                    judge_receiver_faulty(&mut cx, &mode, cap, &seq, &stream, &sizes, &outs, &r.panic, &r.injected, &t);
                } else {
                    judge_receiver_exact(&mut cx, &mode, cap, &seq, &stream, &sizes, &r, &t);
                }
            }
            ("async", _) => {
                let pc = case["pipe_cap"].as_u64().unwrap_or(1) as usize;
                let (t, r) = replay(&choices, || run_async(s, cap, &seq, pc, 2, &FaultCfg::off(), &FaultCfg::off()));
                if round == 0 {
                    println!("async run: {:?}", r);
                }
                judge_async(&mut cx, cap, pc, &seq, &r, &t);
            }
            ("fault", sd) => {
                let (wf, rf) = if sd == "async_writer" { (fc.clone(), FaultCfg::off()) } else { (FaultCfg::off(), fc.clone()) };
                let (stream, _, sizes) = stream_of(&d, &seq, buf_len(cap, &d));
                let (t, r) = replay(&choices, || run_async(s, cap, &seq, msgs.s.max(1), 0, &wf, &rf));
                if round == 0 {
                    println!("async faulty run: {:?}", r);
                }
                judge_async_faulty(&mut cx, cap, &seq, &stream, &sizes, &r, &t, sd);
            }
            ("hostile", _) => {
                let stream = harness::report::unhex(case["stream"].as_str().unwrap_or(""));
                if case["variant"] == "async" {
                    let (t, (outs, p, e)) = replay(&choices, || run_receiver_async_only(s, cap, &stream));
                    if round == 0 {
                        println!("async receiver on {}: {:?} panic {:?} end {:?}", hex(&stream), outs, p, e);
                    }
                    judge_hostile(&mut cx, "async", cap, &stream, "replay", &outs, &p, Some(&e), &t);
                } else {
                    let (t, r) = replay(&choices, || run_receiver_blocking(s, cap, &stream, &FaultCfg::off(), true));
                    if round == 0 {
                        println!("blocking receiver on {}: {:?} panic {:?}", hex(&stream), r.outs, r.panic);
                        println!("reference for the whole stream: {:?}", decode(&d, &stream));
                    }
                    let outs: Vec<RecvOut> = r.outs.iter().map(|o| o.0.clone()).collect();
                    judge_hostile(&mut cx, "blocking", cap, &stream, "replay", &outs, &r.panic, None, &t);
                }
            }
            _ => {
                println!("replay: unknown mode/side {} {}", mode, side);
                return 2;
            }
        }
        let v: Vec<String> = cx.acc.violations.values().map(|v| format!("{} :: {}", v.key, v.detail)).collect();
        verdicts.push(v);
    }
    for v in &verdicts[0] {
        println!("VIOLATION-REPRODUCED {}", v);
    }
    if verdicts[0] != verdicts[1] {
        println!("replay: NON-DETERMINISTIC");
        return 2;
    }
    if verdicts[0].is_empty() {
        0
    } else {
        1
    }
}
