//! E1 sweep over (shape, value, emplacer kind, entry point, buffer length, address offset, fill):
//! C03 (read back / validates / byte-exact), C15 (outcome on every buffer), C20 (defaults),
//! C17 (portable images), and the constructed-value part of C05 (size) and C14 (write footprint).

use engines::*;
use flatty::error::ErrorKind;
use flatty::Error;
use harness::guard::Arena;
use harness::report::{catch, hex, journal, Args, PropAcc};
use harness::{Observation, ShapeDyn};
use refmodel::ops::{Kind, KINDS};
use refmodel::values::{enum_values, flex_big_last, scale_ladder, scaled_value, Limits};
use refmodel::{ceil, decode, encode, serialize_portable, Desc, Value};
use serde_json::json;

struct Emplace;

const FILLS: [u8; 3] = [0x00, 0xFF, 0xEE];

fn kname(k: Kind) -> &'static str {
    match k {
        Kind::Iter => "iter",
        Kind::Literal => "literal",
        Kind::Grow => "grow",
    }
}
fn kparse(s: &str) -> Kind {
    match s {
        "literal" => Kind::Literal,
        "grow" => Kind::Grow,
        _ => Kind::Iter,
    }
}

fn panic_site(p: &str) -> String {
    p.rsplit(" at ").next().unwrap_or("").to_string()
}

#[derive(Clone, Copy, PartialEq, Debug)]
enum Entry {
    New,
    Wrap,
    Default,
}
fn ename(e: Entry) -> &'static str {
    match e {
        Entry::New => "new_in_place",
        Entry::Wrap => "FlatWrap::new_in_place",
        Entry::Default => "default_in_place",
    }
}

struct Case<'a> {
    s: &'a dyn ShapeDyn,
    d: &'a Desc,
    v: &'a Value,
    vi: usize,
    kind: Kind,
    entry: Entry,
    n: usize,
    off: usize,
    fill: u8,
    /// ladder value: recorded as `scaled_value(N)` instead of its printed form
    scale: Option<usize>,
    /// index into `flex_big_last(desc)`
    biglast: Option<usize>,
}

struct Outcome {
    /// violation messages per property
    v: Vec<(&'static str, String, String)>, // (prop, key-suffix, detail)
    class: String,
    image: Option<Vec<u8>>,
}

fn fill_pattern(buf: &mut [u8], fill: u8) {
    if fill == 0x11 {
        for (i, b) in buf.iter_mut().enumerate() {
            *b = (i as u8).wrapping_mul(7).wrapping_add(3);
        }
    } else {
        for b in buf.iter_mut() {
            *b = fill;
        }
    }
}

fn run_case(arena: &mut Arena, c: &Case) -> Outcome {
    let d = c.d;
    let a = d.align();
    let mut out = Outcome { v: vec![], class: String::new(), image: None };
    let mut slot = arena.place(c.n, c.off, 0);
    fill_pattern(slot.bytes_mut(), c.fill);
    let before = slot.bytes().to_vec();
    let base = slot.addr();
    let aligned = base % a == 0;
    let fits = encode(d, c.v, c.n, 0).is_ok();
    let fits_rounded = encode(d, c.v, ceil(c.n, a), 0).is_ok();
    let _ = harness::guard::take_drops();
    let r: Result<Option<Result<Observation, Error>>, String> = catch(|| match c.entry {
        Entry::New => Some(c.s.new_in_place(slot.bytes_mut(), c.v, c.kind)),
        Entry::Wrap => Some(c.s.wrap_new_in_place(slot.bytes_mut(), c.v, c.kind)),
        Entry::Default => c.s.default_in_place(slot.bytes_mut()),
    });
    let after = slot.bytes().to_vec();
    // a destructor that ran on an address inside the buffer treated its previous (raw) bytes as a live value
    if c.entry == Entry::Default {
        if let Some(ad) = harness::guard::take_drops().into_iter().find(|ad| *ad >= base && *ad < base + c.n.max(1)) {
            out.v.push(("C20", "destructor_on_previous_contents".into(), format!("a destructor ran on the buffer's previous bytes at +{} while the default was being written", ad - base)));
        }
    }
    let canary = slot.check();
    if let Err(e) = &canary {
        out.v.push(("C14", "canary".into(), e.clone()));
    }
    let r = match r {
        Err(p) => {
            out.v.push(("C15", format!("panic/{}", panic_site(&p)), format!("panic: {}", p)));
            // the call covers the emplacement AND the observation of the result (read back, size(), re-validation):
            // a value that cannot be observed also fails C03 and C05
            out.v.push(("C03", format!("panic/{}", panic_site(&p)), format!("panic while emplacing / reading back: {}", p)));
            out.v.push(("C05", format!("panic/{}", panic_site(&p)), format!("panic while emplacing / taking size(): {}", p)));
            out.class = "panic".into();
            return out;
        }
        Ok(None) => {
            out.class = "nodefault".into();
            return out;
        }
        Ok(Some(r)) => r,
    };
    match r {
        Err(e) => {
            out.class = format!("err:{:?}", e.kind);
            if !aligned {
                let short = c.n < d.min_size();
                if !(e.kind == ErrorKind::BadAlign || (short && e.kind == ErrorKind::InsufficientSize)) {
                    out.v.push(("C15", "misaligned_kind".into(), format!("misaligned buffer refused with {:?} instead of BadAlign", e)));
                }
            } else if fits {
                out.v.push(("C15", format!("refused_fitting/{:?}", e.kind), format!("aligned buffer of {} bytes can hold the content but was refused: {:?}", c.n, e)));
                // C03 promises a value for every aligned buffer that is large enough (C20 for defaults)
                out.v.push(("C03", format!("refused_fitting/{:?}", e.kind), format!("aligned buffer of {} bytes is large enough but emplacement failed: {:?}", c.n, e)));
            } else if e.kind != ErrorKind::InsufficientSize {
                out.v.push(("C15", format!("too_small_kind/{:?}", e.kind), format!("buffer of {} bytes is too small; refused with {:?} instead of InsufficientSize", c.n, e)));
            }
            // a failed emplacement may scribble inside the slice, never outside (canary above)
        }
        Ok(o) => {
            out.class = "ok".into();
            if !aligned {
                out.v.push(("C15", "misaligned_accepted".into(), "misaligned buffer accepted".into()));
                return out;
            }
            if !fits && !fits_rounded {
                out.v.push(("C15", "accepted_too_small".into(), format!("buffer of {} bytes cannot hold the content but was accepted (size() {})", c.n, o.size)));
            }
            // ---- consistency of the view (shared by C03 / C15)
            let mut probs: Vec<String> = o.walk.problems.clone();
            for (p, l, what) in &o.walk.ranges {
                if !(*p >= base && p + l <= base + c.n) {
                    probs.push(format!("{} at +{}..+{} outside the slice of {}", what, *p as isize - base as isize, *p as isize - base as isize + *l as isize, c.n));
                }
            }
            if o.size_of_val > c.n {
                probs.push(format!("size_of_val {} > slice {}", o.size_of_val, c.n));
            }
            if let Some(p) = probs.first() {
                let what = p.split(|ch: char| ch.is_ascii_digit()).next().unwrap_or("").trim().replace(' ', "_");
                out.v.push(("C03", format!("inconsistent_view/{}", what), probs.join("; ")));
            }
            // ---- C03: read back, validates, byte-exact
            if &o.value.0 != c.v {
                out.v.push(("C03", "readback".into(), format!("reads back {:?}", o.value.0)));
            }
            if !o.revalidate_ok {
                out.v.push(("C03", "revalidate".into(), "validate(value.as_bytes()) fails".into()));
            }
            if let Ok(img) = encode(d, c.v, c.n, 0) {
                if o.size != img.extent {
                    out.v.push(("C05", "size_vs_extent".into(), format!("size() {} != reference extent {}", o.size, img.extent)));
                }
                let lim = o.size.min(img.extent).min(c.n);
                for i in 0..lim {
                    if img.mask[i] && after[i] != img.bytes[i] {
                        out.v.push(("C03", "bytes".into(), format!("byte {} is {:02x}, documented encoding has {:02x} (image {} vs reference {})", i, after[i], img.bytes[i], hex(&after[..lim]), hex(&img.bytes[..lim]))));
                        break;
                    }
                }
                // ---- C17: portable image = layout-free concatenation, no padding
                if c.s.declared_portable() && d.is_portable() {
                    let mut ser = Vec::new();
                    serialize_portable(d, c.v, &mut ser);
                    let ext = img.extent.min(c.n);
                    let inactive = (0..ext).filter(|i| img.inactive[*i]).count();
                    let pad = (0..ext).filter(|i| !img.mask[*i] && !img.inactive[*i]).count();
                    if pad > 0 {
                        out.v.push(("C17", "padding".into(), format!("{} padding byte(s) inside the {}-byte image of a portable type", pad, img.extent)));
                    } else if inactive > 0 {
                        out.v.push(("C17", "senum_inactive_bytes".into(), format!("{} byte(s) of the {}-byte image belong to no field of the active variant of a sized enum: the image is not a function of the content", inactive, img.extent)));
                    } else if o.size != ser.len() {
                        // the value's own statement of its encoding (the first size() bytes) is longer or shorter than the
                        // concatenation: bytes nobody wrote belong to it, or content is left out
                        out.v.push(("C17", "size_vs_serialisation".into(), format!("size() {} but the reference serialisation of the content has {} bytes", o.size, ser.len())));
                    } else if ser.as_slice() != &after[..ext] {
                        out.v.push(("C17", "serialisation".into(), format!("image {} != reference serialisation {}", hex(&after[..ext]), hex(&ser))));
                    }
                    // mapped at any address: the same image at every address offset 1..7 reads the same content
                    if c.off == 0 && c.fill == 0xEE {
                        for off in 1..8usize {
                            let mut raw = vec![0xEEu8; ext + 80];
                            let base = (64 - (raw.as_ptr() as usize % 64)) % 64 + off;
                            raw[base..base + ext].copy_from_slice(&after[..ext]);
                            match catch(|| c.s.from_bytes(&raw[base..base + ext])) {
                                Ok(Ok(o2)) if o2.value.0 == o.value.0 && o2.size == o.size => {}
                                other => out.v.push(("C17", "any_address".into(), format!("image mapped at address offset {} gives {:?}", off, other.map(|r| r.map(|o| (o.value.0, o.size)))))),
                            }
                        }
                    }
                }
            }
            if o.size > c.n {
                out.v.push(("C05", "size_gt_slice".into(), format!("size() {} > slice {}", o.size, c.n)));
            } else {
                // C05: truncating to size() loses nothing
                let cut = &after[..o.size];
                let mut s2 = arena_place_copy(c, cut);
                match catch(|| c.s.from_bytes(&s2.0)) {
                    Err(p) => out.v.push(("C05", format!("remap_panic/{}", panic_site(&p)), format!("from_bytes(first size() bytes) panics: {}", p))),
                    Ok(Err(e)) => out.v.push(("C05", format!("remap_rejected/{:?}", e.kind), format!("from_bytes(first size()={} bytes) rejected: {:?}", o.size, e))),
                    Ok(Ok(o2)) => {
                        if o2.value.0 != o.value.0 || o2.size != o.size {
                            out.v.push(("C05", "remap_differs".into(), format!("first size()={} bytes read {:?} size {}", o.size, o2.value.0, o2.size)));
                        }
                    }
                }
                s2.0.clear();
            }
            // ---- C20 specifics
            if c.entry == Entry::Default {
                if let Some(nb) = c.s.native_default_bytes() {
                    if let Ok(img) = encode(d, c.v, c.n, 0) {
                        for i in 0..nb.len().min(c.n) {
                            if img.mask[i] && after[i] != nb[i] {
                                out.v.push(("C20", "native_default".into(), format!("byte {} is {:02x} but Default::default() has {:02x}", i, after[i], nb[i])));
                                break;
                            }
                        }
                    }
                }
            }
            out.image = Some(after.clone());
        }
    }
    let _ = before;
    out
}

/// aligned heap copy (the re-mapped prefix does not need the guarded arena)
struct AlignedCopy(Vec<u8>, usize);
impl std::ops::Deref for AlignedCopy {
    type Target = [u8];
    fn deref(&self) -> &[u8] {
        &self.0[self.1..]
    }
}
fn arena_place_copy(c: &Case, b: &[u8]) -> (AlignedVec,) {
    let _ = c;
    (AlignedVec::from(b),)
}
pub struct AlignedVec {
    raw: Vec<u8>,
    off: usize,
    len: usize,
}
impl AlignedVec {
    fn from(b: &[u8]) -> Self {
        let mut raw = vec![0xEEu8; b.len() + 64];
        let off = (64 - (raw.as_ptr() as usize % 64)) % 64;
        raw[off..off + b.len()].copy_from_slice(b);
        AlignedVec { raw, off, len: b.len() }
    }
    fn clear(&mut self) {}
}
impl std::ops::Deref for AlignedVec {
    type Target = [u8];
    fn deref(&self) -> &[u8] {
        &self.raw[self.off..self.off + self.len]
    }
}

impl Engine for Emplace {
    const NAME: &'static str = "emplace";

    fn run(&self, s: &'static dyn ShapeDyn, args: &Args) -> Accs {
        let id = s.id();
        let fam = family(id);
        let d = s.desc();
        let a = d.align();
        let min = d.min_size();
        let thorough = args.thorough();
        let lim = if thorough { Limits::thorough() } else { Limits::quick() };
        let avail = min + 3 * a + 12;
        let vals = enum_values(&d, avail, &lim);
        let mut arena = Arena::new(avail + 4 * a + 96);
        let mut m = Accs::new();
        for p in ["C03", "C05", "C14", "C15", "C17", "C20"] {
            if args.wants(p) {
                m.insert(p, PropAcc::default());
            }
        }
        let portable = s.declared_portable();
        let only_portable = args.props == vec!["C17".to_string()];
        if only_portable && !portable {
            return m;
        }
        let record = |m: &mut Accs, c: &Case, o: &Outcome| {
            if !o.v.is_empty() {
                let vtxt = match (c.scale, c.biglast) {
                    (Some(nn), _) => format!("<ladder value N={}>", nn),
                    (_, Some(bi)) => format!("<flex with a large last item #{}: {}>", bi, format!("{:?}", c.v).chars().take(80).collect::<String>()),
                    _ => format!("{:?}", c.v),
                };
                let replay = json!({"engine": "emplace", "shape": c.s.id(), "vi": c.vi, "value": vtxt, "scale": c.scale, "biglast": c.biglast, "kind": kname(c.kind), "entry": ename(c.entry), "n": c.n, "off": c.off, "fill": c.fill});
                // C15's last clause: an accepted emplacement "then satisfies C03" — what C03 reports on an accepted
                // new_in_place / FlatWrap::new_in_place is a C15 violation as well
                let mut extra: Vec<(&'static str, String, String)> = vec![];
                if c.entry != Entry::Default && o.class == "ok" {
                    for (p, key, detail) in &o.v {
                        if *p == "C03" {
                            extra.push(("C15", format!("accepted_but_{}", key), detail.clone()));
                        }
                    }
                }
                for (p, key, detail) in o.v.iter().chain(extra.iter()) {
                    if let Some(acc) = m.get_mut(p) {
                        acc.violate(format!("emplace/{}/{}/{}", key, ename(c.entry), fam), format!("{} value={} kind={} n={} off={} fill={:02x}: {}", c.s.id(), vtxt, kname(c.kind), c.n, c.off, c.fill, detail.chars().take(800).collect::<String>()), replay.clone());
                    }
                }
            }
            for (p, acc) in m.iter_mut() {
                let relevant = match *p {
                    "C20" => c.entry == Entry::Default,
                    "C17" => portable,
                    "C03" | "C05" => o.class == "ok",
                    _ => true,
                };
                if relevant {
                    acc.evaluations += 1;
                    match c.scale {
                        Some(nn) => acc.distinct.insert(format!("{}:N{}:{}:{}", c.s.id(), nn, kname(c.kind), o.class)),
                        None => acc.distinct.insert(format!("{}:{}:{}:{}", c.s.id(), c.vi, kname(c.kind), o.class)),
                    };
                    acc.count(&o.class, 1);
                }
            }
        };
        // ---------------- new_in_place / FlatWrap::new_in_place
        for (vi, v) in vals.iter().enumerate() {
            let need = (0..=avail).find(|n| encode(&d, v, *n, 0).is_ok()).unwrap_or(avail);
            let top = (need + 2 * a + 2).min(avail + 2 * a);
            for kind in KINDS {
                for entry in [Entry::New, Entry::Wrap] {
                    if entry == Entry::Wrap && !(kind == Kind::Iter) {
                        continue;
                    }
                    for n in 0..=top {
                        // every residue modulo ALIGN, and (for the lengths around the fit) addresses aligned to
                        // ALIGN and to nothing more: 1, 3 and 5 times ALIGN modulo 64
                        let mut offs: Vec<usize> = (0..a.max(if portable { 8 } else { 1 })).collect();
                        if n + 1 >= need && n <= need + a {
                            offs.extend([a, 3 * a, 5 * a].into_iter().filter(|o| *o < 64 && *o >= a.max(if portable { 8 } else { 1 })));
                        }
                        for off in offs {
                            let aligned = off % a == 0;
                            let fills: &[u8] = if aligned && n >= need { &FILLS } else { &FILLS[2..] };
                            let mut images: Vec<Vec<u8>> = vec![];
                            for &fill in fills {
                                let c = Case { s, d: &d, v, vi, kind, entry, n, off, fill, scale: None, biglast: None };
                                journal(format!("emplace {} vi={} kind={} entry={} n={} off={} fill={}", id, vi, kname(kind), ename(entry), n, off, fill).as_bytes());
                                let o = run_case(&mut arena, &c);
                                record(&mut m, &c, &o);
                                if let Some(img) = o.image {
                                    images.push(img);
                                }
                            }
                            // fill independence under the mask
                            if images.len() > 1 {
                                if let (Ok(img), Some(acc)) = (encode(&d, v, n, 0), m.get_mut("C03")) {
                                    for other in &images[1..] {
                                        if (0..img.extent.min(n)).any(|i| img.mask[i] && other[i] != images[0][i]) {
                                            acc.violate(format!("emplace/fill_dependent/{}", fam), format!("{} value={:?} kind={} n={}: image depends on the previous buffer contents", id, v, kname(kind), n), json!({"engine": "emplace", "shape": id, "vi": vi, "kind": kname(kind), "entry": "new_in_place", "n": n, "off": off, "fill": 0}));
                                        }
                                    }
                                }
                            }
                        }
                    }
                }
            }
            if vi == 0 {
                for (p, acc) in m.iter_mut() {
                    if *p != "C20" {
                        acc.sample(json!({"shape": id, "value": format!("{:?}", v), "need": need, "lengths": format!("0..={}", top), "kinds": ["iter", "literal", "grow"], "reference_image": encode(&d, v, need, 0).map(|i| hex(&i.bytes)).unwrap_or_default()}));
                    }
                }
            }
        }
        // ---------------- beyond the small scope: container sizes from the scale ladder in tight buffers, small
        // values and the default in buffers of 100 .. 520 (T: .. 70 000) bytes
        if !only_portable || portable {
            let ladder = scale_ladder(thorough);
            let buffers = buffer_ladder(thorough);
            let flexy = format!("{:?}", d).contains("Flex");
            let maxb = buffers.iter().max().cloned().unwrap_or(0);
            let mut big_arena = Arena::new(maxb.max(ladder.iter().max().cloned().unwrap_or(0) * 20) + 4 * a + 4096);
            if !d.is_sized() {
                for nn in ladder {
                    if flexy && nn > 4100 {
                        continue;
                    }
                    let v = match scaled_value(&d, nn) {
                        Some(v) => v,
                        None => match &d {
                            // one element more than (or far beyond what) the length type can count
                            Desc::Vec { elem, len } if (nn as u128) > len.max() && nn <= 300 => match enum_values(elem, elem.size(), &Limits::quick()).first() {
                                Some(x) => Value::Vec(vec![x.clone(); nn]),
                                None => continue,
                            },
                            _ => continue,
                        },
                    };
                    let need = match encode(&d, &v, nn * 64 + 4096, 0) {
                        Ok(i) => i.extent,
                        // more elements than a one-byte length type can count: no buffer holds this content, every
                        // emplacer has to refuse it however much room there is (S148)
                        Err(_) => match &d {
                            Desc::Vec { elem, .. } if nn <= 300 => refmodel::ceil(d.data_offset() + nn * elem.size().max(1), a.max(1)),
                            _ => continue,
                        },
                    };
                    if need + 2 * a + 8 > big_arena.capacity() {
                        big_arena = Arena::new(need + 2 * a + 4096);
                    }
                    for kind in KINDS {
                        for (n, fill) in [(need.saturating_sub(a), 0xEEu8), (need - 1, 0xEE), (need, 0xEE), (need, 0x00), (need + 1, 0xEE), (need + a, 0x11), (need + 2 * a + 3, 0xEE)] {
                            let c = Case { s, d: &d, v: &v, vi: 0, kind, entry: Entry::New, n, off: 0, fill, scale: Some(nn), biglast: None };
                            journal(format!("emplace-scale {} N={} kind={} entry={} n={} off=0 fill={}", id, nn, kname(kind), ename(Entry::New), n, fill).as_bytes());
                            let o = run_case(&mut big_arena, &c);
                            record(&mut m, &c, &o);
                        }
                    }
                }
            }
            // FlexVec contents whose LAST item is large (its sealing offset around the offset type's maximum): the
            // last item is never sealed, so a buffer that holds the bytes must be accepted
            for (bi, v) in flex_big_last(&d, if thorough { 70_100 } else { 1100 }).iter().enumerate() {
                let need = match encode(&d, v, 1 << 18, 0) {
                    Ok(i) => i.extent,
                    Err(_) => continue,
                };
                if need + 2 * a + 8 > big_arena.capacity() {
                    big_arena = Arena::new(need + 2 * a + 4096);
                }
                for kind in [Kind::Iter, Kind::Grow] {
                    for (n, fill) in [(need - 1, 0xEEu8), (need, 0xEE), (need + a, 0x00), (need + 2 * a + 3, 0xEE)] {
                        let c = Case { s, d: &d, v, vi: bi, kind, entry: Entry::New, n, off: 0, fill, scale: None, biglast: Some(bi) };
                        journal(format!("emplace-biglast {} bi={} kind={} entry={} n={} off=0 fill={}", id, bi, kname(kind), ename(Entry::New), n, fill).as_bytes());
                        let o = run_case(&mut big_arena, &c);
                        record(&mut m, &c, &o);
                    }
                }
            }
            for (vi, v) in vals.iter().enumerate() {
                if vi != 0 && vi + 1 != vals.len() {
                    continue;
                }
                for &b in &buffers {
                    for fill in [0xEEu8, 0x00] {
                        let c = Case { s, d: &d, v, vi, kind: Kind::Iter, entry: Entry::New, n: b, off: 0, fill, scale: None, biglast: None };
                        journal(format!("emplace {} vi={} kind={} entry={} n={} off={} fill={}", id, vi, kname(Kind::Iter), ename(Entry::New), b, 0, fill).as_bytes());
                        let o = run_case(&mut big_arena, &c);
                        record(&mut m, &c, &o);
                    }
                }
            }
            if s.has_default() && !only_portable {
                if let Some(dv) = d.default_value() {
                    for &b in &buffers {
                        for fill in [0xEEu8, 0x00] {
                            let c = Case { s, d: &d, v: &dv, vi: usize::MAX, kind: Kind::Iter, entry: Entry::Default, n: b, off: 0, fill, scale: None, biglast: None };
                            journal(format!("emplace {} default n={} off={} fill={}", id, b, 0, fill).as_bytes());
                            let mut o = run_case(&mut big_arena, &c);
                            for x in o.v.iter_mut() {
                                if x.0 == "C03" || x.0 == "C05" {
                                    x.0 = "C20";
                                }
                            }
                            record(&mut m, &c, &o);
                        }
                    }
                }
            }
        }
        // ---------------- default_in_place
        if s.has_default() && (args.wants("C20") || args.wants("C15")) && !only_portable {
            match d.default_value() {
                None => {
                    if let Some(acc) = m.get_mut("C20") {
                        acc.notes.push(format!("{}: library offers a default but the reference has none", id));
                    }
                }
                Some(dv) => {
                    let need = (0..=avail).find(|n| encode(&d, &dv, *n, 0).is_ok()).unwrap_or(avail);
                    let top = need + 2 * a + if d.is_sized() { 2 } else { 8 };
                    for n in 0..=top {
                        let mut offs: Vec<usize> = (0..a).collect();
                        if n + 1 >= need && n <= need + a {
                            offs.extend([a, 3 * a, 5 * a].into_iter().filter(|o| *o < 64 && *o >= a));
                        }
                        for off in offs {
                            let fills: &[u8] = if off == 0 && n >= need { &[0x00, 0xFF, 0xEE, 0x11] } else { &[0xEE] };
                            let mut images: Vec<Vec<u8>> = vec![];
                            for &fill in fills {
                                let c = Case { s, d: &d, v: &dv, vi: usize::MAX, kind: Kind::Iter, entry: Entry::Default, n, off, fill, scale: None, biglast: None };
                                journal(format!("emplace {} default n={} off={} fill={}", id, n, off, fill).as_bytes());
                                let mut o = run_case(&mut arena, &c);
                                // what C03 checks for new_in_place is the C20 contract for defaults
                                for x in o.v.iter_mut() {
                                    if x.0 == "C03" || x.0 == "C05" {
                                        x.0 = "C20";
                                    }
                                }
                                if o.class == "ok" && n >= need && off == 0 {
                                    if let Ok(img) = encode(&d, &dv, n, 0) {
                                        if img.extent != ceil(d.min_size().max(img.extent), a) && d.is_sized() {
                                            o.v.push(("C20", "minimal".into(), "default state is not minimal".into()));
                                        }
                                    }
                                }
                                record(&mut m, &c, &o);
                                if let Some(img) = o.image {
                                    images.push(img);
                                }
                            }
                            if images.len() > 1 {
                                if let (Ok(img), Some(acc)) = (encode(&d, &dv, n, 0), m.get_mut("C20")) {
                                    for other in &images[1..] {
                                        if (0..img.extent.min(n)).any(|i| img.mask[i] && other[i] != images[0][i]) {
                                            acc.violate(format!("emplace/default_fill_dependent/{}", fam), format!("{} n={}: default image depends on the previous buffer contents: {} vs {}", id, n, hex(&images[0]), hex(other)), json!({"engine": "emplace", "shape": id, "vi": -1, "kind": "iter", "entry": "default_in_place", "n": n, "off": 0, "fill": 0}));
                                        }
                                    }
                                }
                            }
                        }
                    }
                    // FlatWrap::default_in_place over an owned AlignedBytes, read through Deref, unwrapped again
                    for n in 0..=top {
                        for fill in [0x00u8, 0xEE] {
                            journal(format!("emplace {} wrapdefault n={} fill={}", id, n, fill).as_bytes());
                            let fits = encode(&d, &dv, n, 0).is_ok();
                            let r = catch(|| s.wrap_default_in_place(n, a, fill));
                            let replay = json!({"engine": "emplace", "shape": id, "vi": -1, "kind": "iter", "entry": "FlatWrap::default_in_place(owned)", "n": n, "off": 0, "fill": fill});
                            let mut bad: Vec<(&'static str, String, String)> = vec![];
                            match r {
                                Err(p) => bad.push(("C15", format!("panic/{}", panic_site(&p)), format!("panic: {}", p))),
                                Ok(None) => {}
                                Ok(Some(Err(e))) => {
                                    if fits {
                                        bad.push(("C15", "refused_fitting".into(), format!("owned buffer of {} bytes can hold the default but was refused: {:?}", n, e)));
                                        bad.push(("C20", "refused_fitting".into(), format!("owned buffer of {} bytes can hold the default but was refused: {:?}", n, e)));
                                    } else if e.kind != ErrorKind::InsufficientSize {
                                        bad.push(("C15", format!("too_small_kind/{:?}", e.kind), format!("{} bytes too small, refused with {:?}", n, e)));
                                    }
                                }
                                Ok(Some(Ok((o, back)))) => {
                                    if !fits && encode(&d, &dv, ceil(n, a), 0).is_err() {
                                        bad.push(("C15", "accepted_too_small".into(), format!("owned buffer of {} bytes accepted", n)));
                                    }
                                    let base = o.self_addr;
                                    let mut probs = o.walk.problems.clone();
                                    for (p_, l, what) in &o.walk.ranges {
                                        if !(*p_ >= base && p_ + l <= base + n) {
                                            probs.push(format!("{} outside the owned buffer of {}", what, n));
                                        }
                                    }
                                    if o.value.0 != dv {
                                        probs.push(format!("reads {:?}", o.value.0));
                                    }
                                    if back.len() != n {
                                        probs.push(format!("into_inner returned {} bytes", back.len()));
                                    } else if let Ok(img) = encode(&d, &dv, n, 0) {
                                        if (0..img.extent.min(n)).any(|i| img.mask[i] && back[i] != img.bytes[i]) {
                                            probs.push(format!("bytes {} differ from the reference {}", hex(&back[..img.extent.min(n)]), hex(&img.bytes[..img.extent.min(n)])));
                                        }
                                    }
                                    if let Some(p0) = probs.first() {
                                        let what = p0.split(|ch: char| ch.is_ascii_digit()).next().unwrap_or("").trim().replace(' ', "_");
                                        bad.push(("C20", format!("wrap_default/{}", what), probs.join("; ")));
                                    }
                                }
                            }
                            for (p_, key, detail) in bad {
                                if let Some(acc) = m.get_mut(p_) {
                                    acc.violate(format!("emplace/{}/FlatWrap::default_in_place(owned)/{}", key, fam), format!("{} n={} fill={:02x}: {}", id, n, fill, detail), replay.clone());
                                }
                            }
                            for p_ in ["C15", "C20"] {
                                if let Some(acc) = m.get_mut(p_) {
                                    acc.evaluations += 1;
                                    acc.count("wrap_default", 1);
                                }
                            }
                        }
                    }
                    if let Some(acc) = m.get_mut("C20") {
                        acc.sample(json!({"shape": id, "default": format!("{:?}", dv), "need": need, "lengths": format!("0..={}", top), "fills": ["00", "ff", "ee", "incrementing"]}));
                        // the default must be the smallest state: size() == MIN_SIZE-state extent, checked through size_vs_extent above
                        let _ = decode(&d, &[]);
                    }
                }
            }
        }
        // ---------------- C17 static facts
        if portable {
            if let Some(acc) = m.get_mut("C17") {
                acc.evaluations += 1;
                if s.lib_align() != 1 || !d.is_portable() {
                    acc.violate(format!("emplace/portable_align/{}", fam), format!("{}: declared portable but ALIGN is {} and the reference finds a native multi-byte tag/field (no fixed byte order)", id, s.lib_align()), json!({"engine": "emplace", "shape": id, "static": "align"}));
                }
                acc.distinct.insert(format!("{}:static", id));
            }
        }
        for acc in m.values_mut() {
            acc.exhaustive = true;
        }
        m
    }

    /// C17, the mechanism itself: over every instantiation of six generic `portable = true` definitions
    /// (named / tuple struct, sized enum, unsized struct / enum with FlatVec / FlatString / FlexVec tails)
    /// with portable and native arguments in every position, `Portable` is implemented exactly when every
    /// argument is portable per the reference.
    fn global(&self, args: &Args) -> Accs {
        let mut m = Accs::new();
        if !args.wants("C17") {
            return m;
        }
        let mut acc = PropAcc::default();
        let table = shapes::probe_arg_portable();
        let is_p = |a: &str| table.iter().find(|t| t.0 == a).expect("argument type in the table").1;
        for p in shapes::portable_probes() {
            let p_args: Vec<(&str, bool)> = p.args.iter().map(|a| (*a, is_p(a))).collect();
            let p = Probed { ty: p.ty, implements: p.implements, args: p_args };
            let expect = p.args.iter().all(|a| a.1);
            acc.evaluations += 1;
            acc.count(if expect { "impl_expected" } else { "no_impl_expected" }, 1);
            acc.distinct.insert(format!("{}:{}", p.ty.split('<').next().unwrap(), p.args.iter().map(|a| if a.1 { 'p' } else { 'n' }).collect::<String>()));
            if p.implements != expect {
                let def = p.ty.split('<').next().unwrap();
                let which: Vec<String> = p.args.iter().enumerate().filter(|(_, a)| !a.1).map(|(i, a)| format!("#{} {}", i, a.0)).collect();
                let key = if p.implements { "portable_impl_for_native_field" } else { "portable_impl_missing" };
                acc.violate(format!("emplace/{}/{}", key, def), format!("{}: implements Portable = {}, but the reference says {} (non-portable arguments: {:?})", p.ty, p.implements, expect, which), json!({"engine": "emplace", "global": "portable_impl", "ty": p.ty}));
            }
        }
        acc.sample(json!({"portable_impl_matrix": "GPS/GPT/GPQ/GPU/GPW/GPF x argument types in every position", "instantiations": acc.evaluations}));
        acc.exhaustive = true;
        m.insert("C17", acc);
        m
    }

    fn replay_global(&self, case: &serde_json::Value) -> bool {
        let ty = case["ty"].as_str().unwrap_or("");
        let table = shapes::probe_arg_portable();
        for p in shapes::portable_probes() {
            if p.ty == ty {
                let p = Probed { ty: p.ty, implements: p.implements, args: p.args.iter().map(|a| (*a, table.iter().find(|t| t.0 == *a).unwrap().1)).collect() };
                let expect = p.args.iter().all(|a| a.1);
                println!("{}: implements Portable = {}; arguments (portable per reference): {:?}; expected {}", p.ty, p.implements, p.args, expect);
                return p.implements != expect;
            }
        }
        println!("replay: unknown instantiation {}", ty);
        false
    }

    fn replay(&self, s: &'static dyn ShapeDyn, case: &serde_json::Value) -> bool {
        let d = s.desc();
        let a = d.align();
        let avail = d.min_size() + 3 * a + 12;
        // values are re-enumerated deterministically; both tiers are tried for the index
        let vi = case["vi"].as_i64().unwrap_or(0);
        let want = case["value"].as_str().unwrap_or("").to_string();
        let mut v: Option<Value> = case["scale"].as_u64().and_then(|nn| scaled_value(&d, nn as usize));
        if let Some(bi) = case["biglast"].as_u64() {
            v = flex_big_last(&d, if case["n"].as_u64().unwrap_or(0) > 4000 { 70_100 } else { 1100 }).into_iter().nth(bi as usize);
        }
        let scale = case["scale"].as_u64().or(case["biglast"].as_u64()).map(|x| x as usize);
        for lim in [Limits::quick(), Limits::thorough()] {
            if v.is_some() && scale.is_some() {
                break;
            }
            for (i, x) in enum_values(&d, avail, &lim).into_iter().enumerate() {
                // recorded either by its printed form or (crash journal) as "#<index>"
                if format!("{:?}", x) == want || (want == format!("#{}", i) && v.is_none()) {
                    v = Some(x);
                }
            }
        }
        let entry = match case["entry"].as_str().unwrap_or("") {
            "default_in_place" => Entry::Default,
            "FlatWrap::new_in_place" => Entry::Wrap,
            _ => Entry::New,
        };
        let v = match (v, entry) {
            (Some(v), _) => v,
            (None, Entry::Default) => d.default_value().unwrap(),
            _ => {
                println!("replay: value {} (index {}) not found", want, vi);
                return false;
            }
        };
        let n = case["n"].as_u64().unwrap() as usize;
        let mut arena = Arena::new(n + 4 * a + 96);
        let c = Case { s, d: &d, v: &v, vi: 0, kind: kparse(case["kind"].as_str().unwrap_or("iter")), entry, n, off: case["off"].as_u64().unwrap_or(0) as usize, fill: case["fill"].as_u64().unwrap_or(0xEE) as u8, scale: None, biglast: None };
        let o = run_case(&mut arena, &c);
        println!("shape {} value {:?} kind {:?} entry {} n={} off={} fill={:#x}", s.id(), v, c.kind, ename(entry), n, c.off, c.fill);
        println!("outcome class: {}  image: {}", o.class, o.image.as_ref().map(|i| hex(i)).unwrap_or_default());
        println!("reference image: {:?}", encode(&d, &v, n, 0).map(|i| hex(&i.bytes)));
        for (p, k, dt) in &o.v {
            println!("{}: {} :: {}", p, k, dt);
        }
        !o.v.is_empty()
    }
}

struct Probed {
    ty: &'static str,
    implements: bool,
    args: Vec<(&'static str, bool)>,
}

fn main() {
    run_engine(Emplace)
}
