//! E1 sweep over byte strings: C01 (validation is total), C02 (accept <=> well-formed, consistent
//! view), C06 (framing contract), C19 (content errors point at the offending byte).

use engines::*;
use flatty::error::ErrorKind;
use flatty::Error;
use harness::guard::Arena;
use harness::report::{catch, hex, journal, unhex, Args, PropAcc};
use harness::ShapeDyn;
use refmodel::tree::{decode_tree, HField, HKind};
use refmodel::values::{enum_values, Limits};
use refmodel::{decode, encode_opt, write_uint, Desc, Reject, Value};
use serde_json::json;

struct Decode;

fn special_byte(d: &Desc) -> u8 {
    fn find(d: &Desc) -> Option<u8> {
        match d {
            Desc::Flex { .. } => Some((d.data_offset() + d.align()) as u8),
            Desc::Str { .. } => Some(0xC3),
            Desc::Enum { variants, .. } => variants.iter().flatten().find_map(find).or(Some(variants.len() as u8)),
            // a stored value that is no discriminant: the variant count, or a hole between explicit discriminants
            Desc::CEnum { count, discs, .. } => Some(match discs {
                Some(d) => (0u128..256).find(|x| !d.contains(x) && *x > 0).unwrap_or(0) as u8,
                None => *count as u8,
            }),
            Desc::Struct { fields, .. } => fields.iter().find_map(find),
            Desc::Vec { elem, .. } => find(elem),
            Desc::Array(e, _) => find(e),
            _ => None,
        }
    }
    match find(d) {
        Some(x) if ![0u8, 1, 2, 0xFF].contains(&x) => x,
        _ => 0x80,
    }
}

#[derive(Debug, Clone, PartialEq)]
struct Obs {
    value: Value,
    size: usize,
}

struct Ctx<'a> {
    s: &'a dyn ShapeDyn,
    id: &'static str,
    fam: &'a str,
    d: Desc,
    align: usize,
    arena: Arena,
    jprefix: Vec<u8>,
    want01: bool,
    want02: bool,
    /// set while a scale case is being judged: the input is recorded by this label instead of its bytes
    scale_label: Option<String>,
}

/// Re-create the bytes of a scale case from its label: `<base label>[|cut=K][|set=AT:HEX]...`
fn materialize(d: &Desc, label: &str) -> Option<Vec<u8>> {
    let mut parts = label.split('|');
    let mut bytes = scale_case_by_label(d, parts.next()?)?.bytes;
    for p in parts {
        if let Some(k) = p.strip_prefix("cut=") {
            bytes.truncate(k.parse().ok()?);
        } else if let Some(x) = p.strip_prefix("set=") {
            let (at, h) = x.split_once(':')?;
            let at: usize = at.parse().ok()?;
            let b = unhex(h);
            bytes[at..at + b.len()].copy_from_slice(&b);
        }
    }
    Some(bytes)
}

fn kind_name(e: &Error) -> &'static str {
    match e.kind {
        ErrorKind::InsufficientSize => "InsufficientSize",
        ErrorKind::BadAlign => "BadAlign",
        ErrorKind::InvalidEnumTag => "InvalidEnumTag",
        ErrorKind::InvalidData => "InvalidData",
        ErrorKind::Other => "Other",
    }
}

fn panic_site(p: &str) -> String {
    // "message at file:line" -> "file:line" (stable key)
    p.rsplit(" at ").next().unwrap_or("").to_string()
}

fn jcase(ctx: &Ctx, off: usize, bytes: &[u8]) {
    if let Some(l) = &ctx.scale_label {
        journal(format!("decode-scale {} {} {}", ctx.id, off, l).as_bytes());
        return;
    }
    let mut buf = [0u8; 700];
    let mut n = ctx.jprefix.len().min(300);
    buf[..n].copy_from_slice(&ctx.jprefix[..n]);
    buf[n] = b'0' + ((off / 10) % 10) as u8;
    buf[n + 1] = b'0' + (off % 10) as u8;
    buf[n + 2] = b' ';
    n += 3;
    const H: &[u8; 16] = b"0123456789abcdef";
    for b in bytes.iter().take(180) {
        buf[n] = H[(b >> 4) as usize];
        buf[n + 1] = H[(b & 15) as usize];
        n += 2;
    }
    journal(&buf[..n]);
}

/// Run every entry point on `bytes` placed at address offset `off`; judge C01 and C02.
/// Returns the library's verdict (Ok(obs) / Err(error)) for further oracles.
fn check_input(ctx: &mut Ctx, a01: &mut PropAcc, a02: &mut PropAcc, bytes: &[u8], off: usize, origin: &'static str) -> Option<Result<Obs, Error>> {
    let id = ctx.id;
    let fam = ctx.fam;
    jcase(ctx, off, bytes);
    let scale_label = ctx.scale_label.clone();
    let replay = || match &scale_label {
        Some(l) if bytes.len() > 2048 => json!({"engine": "decode", "shape": id, "off": off, "scale_label": l, "origin": origin}),
        Some(l) => json!({"engine": "decode", "shape": id, "off": off, "bytes": hex(bytes), "scale_label": l, "origin": origin}),
        None => json!({"engine": "decode", "shape": id, "off": off, "bytes": hex(bytes), "origin": origin}),
    };
    let mut slot = ctx.arena.place(bytes.len(), off, 0);
    slot.bytes_mut().copy_from_slice(bytes);
    let addr = slot.addr();
    let aligned = addr % ctx.align == 0;
    a01.evaluations += 1;

    // ---- entry point 1: validate
    let sh = ctx.s;
    let r_val = catch(|| sh.validate(slot.bytes()));
    // ---- differential over-read monitor: the verdict must not depend on the bytes behind the slice
    if ctx.want01 || ctx.want02 {
        if slot.set_after(0x00) > 0 {
            let again = catch(|| sh.validate(slot.bytes()));
            slot.set_after(harness::guard::CANARY);
            let same = match (&r_val, &again) {
                (Ok(a), Ok(b)) => a == b,
                (Err(_), Err(_)) => true,
                _ => false,
            };
            if !same {
                let acc = if ctx.want01 { &mut *a01 } else { &mut *a02 };
                acc.violate(format!("decode/depends_on_bytes_outside/{}", fam), format!("{} off={} bytes={} ({}): validate gives {:?} with EE behind the slice and {:?} with 00 behind it: it reads outside the slice", id, off, hex(bytes), origin, r_val, again), replay());
            }
        }
    }
    // ---- entry point 2: from_bytes + observation through safe accessors
    let r_fb = catch(|| {
        sh.from_bytes(slot.bytes()).map(|x| {
            let o = Obs { value: x.value.0.clone(), size: x.size };
            (o, x.walk, x.size_of_val, x.revalidate_ok, x.as_bytes_len)
        })
    });
    // ---- entry points 3 and 4
    let r_fm = catch(|| sh.from_mut_bytes(slot.bytes_mut()).map(|_| ()));
    // FlatWrap validates once and maps the whole slice unchecked on every access: a second way to the same value
    let r_wr = catch(|| sh.from_wrapped_bytes(slot.bytes()).map(|x| (x.value.0.clone(), x.size, x.size_of_val, x.as_bytes_len, x.walk.problems.clone())));

    let modified = slot.bytes() != bytes;
    let canary = slot.check();

    // ---------------- C01
    let mut verdicts: Vec<Option<bool>> = vec![];
    for (name, r) in [("validate", r_val.as_ref().map(|r| r.is_ok())), ("from_bytes", r_fb.as_ref().map(|r| r.is_ok())), ("from_mut_bytes", r_fm.as_ref().map(|r| r.is_ok())), ("from_wrapped_bytes", r_wr.as_ref().map(|r| r.is_ok()))] {
        match r {
            Ok(ok) => verdicts.push(Some(ok)),
            Err(p) => {
                verdicts.push(None);
                if ctx.want01 {
                    a01.violate(format!("decode/panic/{}/{}/{}", name, fam, panic_site(p)), format!("{} off={} bytes={} ({}): panic: {}", id, off, hex(bytes), origin, p), replay());
                }
            }
        }
    }
    if ctx.want01 {
        if modified {
            a01.violate(format!("decode/modified/{}", fam), format!("{} off={} bytes={}: validation modified the slice", id, off, hex(bytes)), replay());
        }
        if let Err(e) = &canary {
            a01.violate(format!("decode/canary/{}", fam), format!("{} off={} bytes={}: {}", id, off, hex(bytes), e), replay());
        }
        let known: Vec<bool> = verdicts.iter().flatten().cloned().collect();
        if known.iter().any(|x| *x != known[0]) {
            a01.violate(format!("decode/disagree/{}", fam), format!("{} off={} bytes={}: entry points disagree {:?}", id, off, hex(bytes), verdicts), replay());
        }
    }
    let lib: Option<Result<Obs, Error>> = match &r_fb {
        Ok(Ok((o, ..))) => Some(Ok(o.clone())),
        Ok(Err(e)) => Some(Err(e.clone())),
        Err(_) => None,
    };
    let lib_ok = matches!(lib, Some(Ok(_)));
    a01.distinct.insert(format!("{}:{}:{}", fam, origin, match &lib { Some(Ok(_)) => "ok", Some(Err(e)) => kind_name(e), None => "panic" }));
    if lib_ok {
        a01.count("accepted", 1);
    } else {
        a01.count("rejected", 1);
    }

    // ---------------- C02
    if ctx.want02 {
        a02.evaluations += 1;
        let refd = if aligned { decode(&ctx.d, bytes) } else { Err(Reject::Short) };
        // cross-check of the two reference decoders (machinery self-check)
        if aligned {
            let t = decode_tree(&ctx.d, bytes);
            match (&refd, &t) {
                (Ok(a), Ok((b, _))) => assert!(a.value == b.value() && a.extent == b.extent, "reference decoders disagree on {} {}", id, hex(bytes)),
                (Err(_), Err(_)) => {}
                _ => panic!("reference decoders disagree (ok/err) on {} {}", id, hex(bytes)),
            }
        }
        match (&lib, &refd) {
            (Some(Ok(_)), Err(rj)) => {
                let why = if !aligned { "misaligned".to_string() } else { format!("{:?}", rj) };
                let class = if !aligned { "misaligned" } else { match rj { Reject::Short => "short", Reject::Content { .. } => "content", Reject::Framing { .. } => "framing" } };
                a02.violate(format!("decode/accepts_malformed/{}/{}", class, fam), format!("{} off={} bytes={} ({}): accepted, reference rejects: {}", id, off, hex(bytes), origin, why), replay());
            }
            (Some(Err(e)), Ok(_)) => {
                a02.violate(format!("decode/rejects_wellformed/{}/{}", kind_name(e), fam), format!("{} off={} bytes={} ({}): rejected with {:?}, reference accepts", id, off, hex(bytes), origin, e), replay());
            }
            (Some(Ok(o)), Ok(rd)) => {
                a02.count("accepted_checked", 1);
                if let Ok(Ok((_, w, sov, reval, ablen))) = &r_fb {
                    let mut probs: Vec<String> = w.problems.clone();
                    for (p, l, what) in &w.ranges {
                        if !(*p >= addr && p + l <= addr + bytes.len()) {
                            probs.push(format!("{} at +{}..+{} outside the slice of {}", what, *p as isize - addr as isize, *p as isize - addr as isize + *l as isize, bytes.len()));
                        }
                    }
                    if *sov > bytes.len() {
                        probs.push(format!("size_of_val {} > slice {}", sov, bytes.len()));
                    }
                    if *ablen > bytes.len() {
                        probs.push(format!("as_bytes().len() {} > slice {}", ablen, bytes.len()));
                    }
                    if !reval {
                        probs.push("validate(value.as_bytes()) fails".into());
                    }
                    if o.value != rd.value {
                        probs.push(format!("content {:?} != reference decoding {:?}", o.value, rd.value));
                    }
                    if o.size > bytes.len() {
                        probs.push(format!("size() {} > slice {}", o.size, bytes.len()));
                    }
                    if let Ok(Ok((wv, wsize, wsov, wab, wprobs))) = &r_wr {
                        if wv != &o.value || *wsize != o.size {
                            probs.push(format!("through FlatWrap the value reads {:?} size {} instead", wv, wsize));
                        }
                        if *wsov > bytes.len() || *wab > bytes.len() {
                            probs.push(format!("through FlatWrap size_of_val {} / as_bytes().len() {} > slice {}", wsov, wab, bytes.len()));
                        }
                        if let Some(p) = wprobs.first() {
                            probs.push(format!("through FlatWrap: {}", p));
                        }
                    }
                    if let Some(p) = probs.first() {
                        let what = p.split(|c: char| c.is_ascii_digit()).next().unwrap_or("").trim().replace(' ', "_");
                        a02.violate(format!("decode/inconsistent_view/{}/{}", what, fam), format!("{} off={} bytes={} ({}): {}", id, off, hex(bytes), origin, probs.join("; ")), replay());
                    }
                }
                a02.distinct.insert(format!("{}:ok:{:?}", id, o.value));
            }
            (Some(Err(e)), Err(rj)) => {
                a02.count("rejected_agree", 1);
                a02.distinct.insert(format!("{}:{}:{}", fam, kind_name(e), match rj { Reject::Short => "short", Reject::Content { .. } => "content", Reject::Framing { .. } => "framing" }));
            }
            (None, _) => {}
        }
    }
    lib
}

fn mutations(f: &HField, a: usize) -> Vec<u128> {
    let mut v: Vec<u128> = vec![];
    let maxv: u128 = if f.size >= 16 { u128::MAX } else { (1u128 << (8 * f.size)) - 1 };
    match &f.kind {
        HKind::Len { cap, max } => v.extend([0, f.cur.wrapping_sub(1), f.cur + 1, *cap, cap + 1, cap + a as u128, max - 1, *max]),
        HKind::Tag { count } => {
            v.extend((0..=*count as u128 + 1).collect::<Vec<_>>());
            v.push(maxv);
        }
        HKind::Off { slot, remaining, align, max } => v.extend([
            0,
            (*slot as u128).saturating_sub(1),
            *slot as u128,
            f.cur.wrapping_sub(1),
            f.cur + 1,
            f.cur.wrapping_sub(*align as u128),
            f.cur + *align as u128,
            *remaining as u128,
            *remaining as u128 + 1,
            (*remaining + *align) as u128,
            *slot as u128 + 1,
            max - 1,
            *max,
        ]),
        HKind::Bool => v.extend([0, 1, 2, 0xFF]),
        HKind::Utf8 => v.extend([0xFF, 0x80, 0xC3, 0x00]),
    }
    v.retain(|x| *x <= maxv && *x != f.cur);
    v.sort();
    v.dedup();
    v
}

fn apply_mut(img: &mut [u8], f: &HField, val: u128) {
    write_uint(&mut img[f.at..f.at + f.size], val, f.be);
}

impl Engine for Decode {
    const NAME: &'static str = "decode";

    fn run(&self, s: &'static dyn ShapeDyn, args: &Args) -> Accs {
        let id = s.id();
        let d = s.desc();
        let align = d.align();
        let min = d.min_size();
        let thorough = args.thorough();
        let lim = if thorough { Limits::thorough() } else { Limits::quick() };
        let avail = min + 3 * align + 12;
        let mut ctx = Ctx {
            s,
            id,
            fam: family(id),
            d: d.clone(),
            align,
            arena: Arena::new(avail * 3 + 64),
            jprefix: format!("decode {} ", id).into_bytes(),
            want01: args.wants("C01"),
            want02: args.wants("C02"),
            scale_label: None,
        };
        let fam = family(id);
        let (mut a01, mut a02, mut a06, mut a19) = (PropAcc::default(), PropAcc::default(), PropAcc::default(), PropAcc::default());

        // ------------------------------------------------------------ (i) raw tree
        if ctx.want01 || ctx.want02 {
            let alpha = [0x00u8, 0x01, 0x02, 0xFF, special_byte(&d)];
            let nmax = if thorough { if min <= 4 { 10 } else if min <= 8 { 9 } else { 8 } } else { 7 };
            let mut buf = vec![0u8; nmax];
            for len in 0..=nmax {
                let total = 5usize.pow(len as u32);
                for code in 0..total {
                    let mut c = code;
                    for i in 0..len {
                        buf[i] = alpha[c % 5];
                        c /= 5;
                    }
                    check_input(&mut ctx, &mut a01, &mut a02, &buf[..len], 0, "raw");
                    if len <= 3 {
                        for off in 1..align {
                            check_input(&mut ctx, &mut a01, &mut a02, &buf[..len], off, "raw_misaligned");
                        }
                    }
                }
            }
            a01.sample(json!({"shape": id, "generator": "raw tree", "alphabet": alpha.iter().map(|b| format!("{:02x}", b)).collect::<Vec<_>>(), "max_len": nmax, "example": hex(&buf[..nmax.min(4)])}));
        }

        // ------------------------------------------------------------ (ii) structured roots
        let vals = enum_values(&d, avail, &lim);
        let mut roots: Vec<(Value, bool, Vec<u8>, usize, Vec<bool>)> = vec![]; // (value, zero_term, image at avail, extent, mask)
        for v in &vals {
            for zt in [false, true] {
                if zt && !format!("{:?}", d).contains("Flex") {
                    continue;
                }
                if let Ok(img) = encode_opt(&d, v, avail, 0xEE, zt) {
                    roots.push((v.clone(), zt, img.bytes, img.extent, img.mask));
                }
            }
        }
        if ctx.want01 || ctx.want02 {
            for (v, _zt, img, ext, _mask) in &roots {
                // the image, every truncation, at the aligned offset; the image at every misaligned offset
                for k in 0..=img.len() {
                    let r = check_input(&mut ctx, &mut a01, &mut a02, &img[..k], 0, "truncation");
                    if k >= *ext && ctx.want02 {
                        // a valid root must be accepted with this content (also judged by C02 through the reference)
                        if let Some(Ok(o)) = &r {
                            if &o.value != v {
                                a02.violate(format!("decode/root_content/{}", fam), format!("{} root {:?} k={} reads back {:?}", id, v, k, o.value), json!({"engine": "decode", "shape": id, "off": 0, "bytes": hex(&img[..k])}));
                            }
                        }
                    }
                }
                for off in 1..align {
                    check_input(&mut ctx, &mut a01, &mut a02, img, off, "misaligned_root");
                    check_input(&mut ctx, &mut a01, &mut a02, &img[..*ext], off, "misaligned_root");
                }
                // aligned to ALIGN and to nothing more (every other placement here is 64-aligned): a validator
                // that asks for more alignment than the type has must not get away with it
                for m in [1usize, 3, 5] {
                    let off = m * align;
                    if off < 64 {
                        let r = check_input(&mut ctx, &mut a01, &mut a02, &img[..*ext], off, "exactly_aligned_root");
                        if let (Some(Ok(o)), true) = (&r, ctx.want02) {
                            if &o.value != v {
                                a02.violate(format!("decode/root_content/{}", fam), format!("{} root {:?} at address offset {} reads back {:?}", id, v, off, o.value), json!({"engine": "decode", "shape": id, "off": off, "bytes": hex(&img[..*ext])}));
                            }
                        }
                    }
                }
                // zero fill of the spare bytes
                let mut z = img.clone();
                for b in &mut z[*ext..] {
                    *b = 0;
                }
                check_input(&mut ctx, &mut a01, &mut a02, &z, 0, "root_zero_spare");
                // header mutations on the roomy image and on the exact-fit image
                for base in [&img[..], &img[..*ext], &z[..]] {
                    let fields = match decode_tree(&d, base) {
                        Ok((_, h)) => h,
                        Err(_) => continue,
                    };
                    let mut work = base.to_vec();
                    for f in &fields {
                        for mv in mutations(f, align) {
                            apply_mut(&mut work, f, mv);
                            check_input(&mut ctx, &mut a01, &mut a02, &work, 0, "mutation");
                            if thorough {
                                for g in fields.iter().take(10) {
                                    if g.at <= f.at {
                                        continue;
                                    }
                                    for mv2 in mutations(g, align).into_iter().take(6) {
                                        let save = work[g.at..g.at + g.size].to_vec();
                                        apply_mut(&mut work, g, mv2);
                                        check_input(&mut ctx, &mut a01, &mut a02, &work, 0, "mutation_pair");
                                        work[g.at..g.at + g.size].copy_from_slice(&save);
                                    }
                                }
                            }
                            work[f.at..f.at + f.size].copy_from_slice(&base[f.at..f.at + f.size]);
                        }
                    }
                }
            }
            if let Some((v, _, img, ext, _)) = roots.first() {
                a02.sample(json!({"shape": id, "generator": "structured root", "value": format!("{:?}", v), "image": hex(img), "extent": ext}));
            }
        }

        // ------------------------------------------------------------ (iii) beyond the small scope
        // small values in buffers of 100 .. 520 (T: .. 70 000) bytes, container sizes 17 .. 300 (T: .. 70 000) in exact
        // and roomy buffers, constant fills; for the big values also cuts and header mutations
        let big = scale_cases(&d, thorough);
        if ctx.want01 || ctx.want02 {
            let maxb = big.iter().map(|c| c.bytes.len()).max().unwrap_or(0);
            ctx.arena = Arena::new(maxb + 64);
            let mut n_cases = 0u64;
            for c in &big {
                ctx.scale_label = Some(c.label.clone());
                let r = check_input(&mut ctx, &mut a01, &mut a02, &c.bytes, 0, "scale");
                n_cases += 1;
                if let (Some(v), Some(Ok(o)), true) = (&c.value, &r, ctx.want02) {
                    if &o.value != v {
                        a02.violate(format!("decode/root_content/{}", fam), format!("{} scale case {} reads back a different value (size {})", id, c.label, o.size), json!({"engine": "decode", "shape": id, "off": 0, "scale_label": c.label}));
                    }
                }
                if align > 1 && c.bytes.len() % 64 == 0 {
                    check_input(&mut ctx, &mut a01, &mut a02, &c.bytes, 1, "scale_misaligned");
                }
                if !c.label.starts_with("scaled:") {
                    continue;
                }
                // cuts of the big image
                let ext = c.extent;
                let mut cuts = vec![ext.saturating_sub(1), ext.saturating_sub(align), ext / 2, d.min_size(), d.min_size() + align];
                cuts.retain(|k| *k < c.bytes.len());
                cuts.sort();
                cuts.dedup();
                for k in cuts {
                    ctx.scale_label = Some(format!("{}|cut={}", c.label, k));
                    check_input(&mut ctx, &mut a01, &mut a02, &c.bytes[..k], 0, "scale_cut");
                    n_cases += 1;
                }
                // header mutations: the first and the last few header fields
                if let Ok((_, fields)) = decode_tree(&d, &c.bytes) {
                    let nf = fields.len();
                    let mut work = c.bytes.clone();
                    for (fi, f) in fields.iter().enumerate() {
                        if fi >= 4 && fi + 3 < nf {
                            continue;
                        }
                        for mv in mutations(f, align) {
                            apply_mut(&mut work, f, mv);
                            ctx.scale_label = Some(format!("{}|set={}:{}", c.label, f.at, hex(&work[f.at..f.at + f.size])));
                            check_input(&mut ctx, &mut a01, &mut a02, &work, 0, "scale_mutation");
                            n_cases += 1;
                            work[f.at..f.at + f.size].copy_from_slice(&c.bytes[f.at..f.at + f.size]);
                        }
                    }
                }
            }
            ctx.scale_label = None;
            a01.count("scale_cases", n_cases);
            a02.count("scale_cases", n_cases);
            a01.distinct.insert(format!("{}:scale:{}", id, big.len()));
        }

        // ------------------------------------------------------------ C06: framing contract
        if args.wants("C06") && min > 0 {
            let mut sfx: Vec<Vec<u8>> = vec![];
            let full = if thorough { 4 } else { 3 };
            for len in 1..=align + 2 {
                if len <= full {
                    for code in 0..3usize.pow(len as u32) {
                        let mut c = code;
                        sfx.push((0..len).map(|_| { let b = [0u8, 1, 0xFF][c % 3]; c /= 3; b }).collect());
                    }
                } else {
                    for b in [0u8, 1, 0xFF] {
                        sfx.push(vec![b; len]);
                    }
                }
            }
            let msgs: Vec<Vec<u8>> = roots.iter().map(|(_, _, img, ext, _)| img[..*ext].to_vec()).collect();
            // big messages (exact images of the scale ladder) obey the same contract; their cuts are sampled
            let mut c06_roots: Vec<(Value, bool, Vec<u8>, usize, Vec<bool>, Option<String>)> = roots.iter().map(|(v, zt, img, ext, mask)| (v.clone(), *zt, img.clone(), *ext, mask.clone(), None)).collect();
            for c in &big {
                if c.label.starts_with("scaled:") && c.label.ends_with(":slack=0") {
                    c06_roots.push((c.value.clone().unwrap(), false, c.bytes.clone(), c.extent, c.mask.clone(), Some(c.label.clone())));
                }
            }
            for (v, zt, img, ext, mask, big_label) in &c06_roots {
                let m = &img[..*ext];
                let mut arena = Arena::new(m.len() * 2 + 64);
                let replay = |b: &[u8]| json!({"engine": "decode", "shape": id, "off": 0, "bytes": hex(b), "origin": "framing"});
                let cuts: Vec<usize> = if big_label.is_none() {
                    (0..*ext).collect()
                } else {
                    let mut c = vec![0, 1, min.saturating_sub(1), min, min + 1, min + align, *ext / 2, ext.saturating_sub(2 * align), ext.saturating_sub(align + 1), ext.saturating_sub(align), ext.saturating_sub(1)];
                    c.retain(|k| k < ext);
                    c.sort();
                    c.dedup();
                    c
                };
                for k in cuts {
                    a06.evaluations += 1;
                    let mut slot = arena.place(k, 0, 0);
                    slot.bytes_mut().copy_from_slice(&m[..k]);
                    match big_label {
                        Some(l) => journal(format!("decode-scale {} 0 {}|cut={}", id, l, k).as_bytes()),
                        None => journal(format!("decode {} 00 {}", id, hex(&m[..k])).as_bytes()),
                    }
                    let r = catch(|| s.from_bytes(slot.bytes()).map(|x| (x.value.0, x.size)));
                    match r {
                        Err(p) => a06.violate(format!("framing/panic/{}/{}", fam, panic_site(&p)), format!("{} prefix {} of {:?}: panic {}", id, k, v, p), replay(&m[..k])),
                        Ok(Err(e)) => {
                            if e.kind != ErrorKind::InsufficientSize {
                                a06.violate(format!("framing/prefix_kind/{}/{}", kind_name(&e), fam), format!("{} prefix {}/{} of {:?} (image {}): rejected as {:?} instead of InsufficientSize", id, k, ext, v, hex(m), e), replay(&m[..k]));
                            }
                            a06.count("prefix_incomplete", 1);
                        }
                        Ok(Ok((val, _sz))) => {
                            let only_padding = mask[k..*ext].iter().all(|b| !*b);
                            if &val != v {
                                a06.violate(format!("framing/prefix_other_message/{}", fam), format!("{} prefix {}/{} of {:?} (image {}) accepted as a different message {:?}", id, k, ext, v, hex(m), val), replay(&m[..k]));
                            } else if !only_padding {
                                a06.violate(format!("framing/prefix_accepted_with_data_missing/{}", fam), format!("{} prefix {}/{} of {:?} (image {}) accepted although non-padding bytes are missing", id, k, ext, v, hex(m)), replay(&m[..k]));
                            }
                            a06.count("prefix_accepted_padding_only", 1);
                        }
                    }
                }
                let mut ext_case = |tail: &[u8], a06: &mut PropAcc| {
                    a06.evaluations += 1;
                    let mut b = m.to_vec();
                    b.extend_from_slice(tail);
                    let mut slot = arena.place(b.len(), 0, 0);
                    slot.bytes_mut().copy_from_slice(&b);
                    match big_label {
                        Some(l) => journal(format!("decode-scale-ext {} 0 {} +{}", id, l, hex(tail)).as_bytes()),
                        None => journal(format!("decode {} 00 {}", id, hex(&b)).as_bytes()),
                    }
                    let r = catch(|| s.from_bytes(slot.bytes()).map(|x| (x.value.0, x.size)));
                    match r {
                        Err(p) => a06.violate(format!("framing/panic/{}/{}", fam, panic_site(&p)), format!("{} {:?} + suffix {}: panic {}", id, v, hex(tail), p), replay(&b)),
                        Ok(Err(e)) => a06.violate(format!("framing/extension_rejected/{}/{}", kind_name(&e), fam), format!("{} message {:?} (image {}) followed by {} rejected: {:?}", id, v, hex(m), hex(tail), e), replay(&b)),
                        Ok(Ok((val, sz))) => {
                            if &val != v || sz != *ext {
                                a06.violate(format!("framing/extension_changes/{}", fam), format!("{} message {:?} size {} (image {}) followed by {} reads {:?} size {}", id, v, ext, hex(m), hex(tail), val, sz), replay(&b));
                            }
                            a06.count("extension_same", 1);
                        }
                    }
                };
                for s in &sfx {
                    ext_case(s, &mut a06);
                }
                for other in &msgs {
                    ext_case(other, &mut a06);
                }
                a06.distinct.insert(format!("{}:{:?}:{}", id, v, zt));
                if a06.samples.is_empty() {
                    a06.sample(json!({"shape": id, "message": format!("{:?}", v), "image": hex(m), "cuts": ext, "suffixes": sfx.len() + msgs.len()}));
                }
            }
            a06.exhaustive = true;
        }

        // ------------------------------------------------------------ C19: error positions
        if args.wants("C19") && d.has_constrained() {
            let mut arena = Arena::new(avail + 64);
            for (v, _zt, img, ext, _) in &roots {
                for base in [&img[..], &img[..*ext]] {
                    let fields = match decode_tree(&d, base) {
                        Ok((_, h)) => h,
                        Err(_) => continue,
                    };
                    for f in &fields {
                        let muts: Vec<u128> = match &f.kind {
                            HKind::Bool => vec![2, 0xFF],
                            HKind::Tag { count } => {
                                let maxv = (1u128 << (8 * f.size)) - 1;
                                let mut m = vec![*count as u128, *count as u128 + 1, maxv];
                                m.retain(|x| *x <= maxv);
                                m.dedup();
                                m
                            }
                            HKind::Utf8 => vec![0xFF, 0x80, 0xC3],
                            _ => continue,
                        };
                        for mv in muts {
                            let mut b = base.to_vec();
                            apply_mut(&mut b, f, mv);
                            let (lo, hi, is_tag) = match decode(&d, &b) {
                                Err(Reject::Content { lo, hi, tag }) => (lo, hi, tag),
                                _ => continue, // the corruption did not produce a pure content error
                            };
                            a19.evaluations += 1;
                            let mut slot = arena.place(b.len(), 0, 0);
                            slot.bytes_mut().copy_from_slice(&b);
                            journal(format!("decode {} 00 {}", id, hex(&b)).as_bytes());
                            let replay = json!({"engine": "decode", "shape": id, "off": 0, "bytes": hex(&b), "origin": "errpos", "expect": [lo, hi]});
                            match catch(|| s.validate(slot.bytes())) {
                                Err(p) => a19.violate(format!("errpos/panic/{}/{}", fam, panic_site(&p)), format!("{} corrupted {}: panic {}", id, hex(&b), p), replay),
                                Ok(Ok(())) => a19.violate(format!("errpos/accepted/{}", fam), format!("{} value {:?} with byte {} := {:#x} ({}) accepted", id, v, f.at, mv, hex(&b)), replay),
                                Ok(Err(e)) => {
                                    // the property speaks of the position only; which error kind names a bad
                                    // byte pattern is not judged here (C10 judges Parse vs 'need more input')
                                    let where_ = nesting(&d, f.at, base);
                                    if !(e.pos >= lo && e.pos < hi) {
                                        a19.violate(format!("errpos/pos/{}/{}", where_, fam), format!("{} value {:?} with bytes[{}..{}] := {:#x} ({}): reported {:?}, offending bytes are {}..{}", id, v, f.at, f.at + f.size, mv, hex(&b), e, lo, hi), replay);
                                    }
                                    a19.distinct.insert(format!("{}:{}:{}:{}", id, where_, if is_tag { "tag" } else { "data" }, lo));
                                    if a19.samples.len() < 2 {
                                        a19.sample(json!({"shape": id, "value": format!("{:?}", v), "corrupted": hex(&b), "offending": [lo, hi], "reported_pos": e.pos}));
                                    }
                                }
                            }
                        }
                    }
                }
            }
            a19.exhaustive = true;
        }

        a01.exhaustive = true;
        a02.exhaustive = true;
        let mut m = Accs::new();
        if ctx.want01 {
            m.insert("C01", a01);
        }
        if ctx.want02 {
            m.insert("C02", a02);
        }
        if args.wants("C06") {
            m.insert("C06", a06);
        }
        if args.wants("C19") {
            m.insert("C19", a19);
        }
        m
    }

    fn replay(&self, s: &'static dyn ShapeDyn, case: &serde_json::Value) -> bool {
        let id = s.id();
        let d = s.desc();
        let bytes = match case["bytes"].as_str() {
            Some(h) => unhex(h),
            None => match materialize(&d, case["scale_label"].as_str().unwrap_or("")) {
                Some(b) => b,
                None => {
                    println!("replay: unknown scale case {:?}", case["scale_label"]);
                    return false;
                }
            },
        };
        let off = case["off"].as_u64().unwrap_or(0) as usize;
        let mut ctx = Ctx { s, id, fam: family(id), d: d.clone(), align: d.align(), arena: Arena::new(bytes.len() + 64), jprefix: b"replay ".to_vec(), want01: true, want02: true, scale_label: None };
        let (mut a01, mut a02) = (PropAcc::default(), PropAcc::default());
        let lib = check_input(&mut ctx, &mut a01, &mut a02, &bytes, off, "replay");
        println!("shape   : {}", id);
        println!("bytes   : {} (len {}, address offset {})", if bytes.len() <= 600 { hex(&bytes) } else { format!("{}...", hex(&bytes[..64])) }, bytes.len(), off);
        println!("library : {:?}", lib);
        println!("reference decode: {:?}", decode(&d, &bytes));
        let mut bad = false;
        for (p, a) in [("C01", &a01), ("C02", &a02)] {
            for v in a.violations.values() {
                println!("{}: {} :: {}", p, v.key, v.detail);
                bad = true;
            }
        }
        if let Some(exp) = case.get("expect").and_then(|e| e.as_array()) {
            let (lo, hi) = (exp[0].as_u64().unwrap() as usize, exp[1].as_u64().unwrap() as usize);
            if let Some(Err(e)) = &lib {
                let okk = matches!(e.kind, ErrorKind::InvalidData | ErrorKind::InvalidEnumTag) && e.pos >= lo && e.pos < hi;
                println!("C19: reported {:?}, offending range {}..{} => {}", e, lo, hi, if okk { "ok" } else { "VIOLATION" });
                bad |= !okk;
            }
        }
        if case["origin"] == "framing" {
            println!("C06: framing replay: library verdict above is to be compared with the message it was cut from / extended");
            bad = true;
        }
        bad
    }
}

/// Where in the nesting the constrained byte at `at` sits (for violation keys).
fn nesting(d: &Desc, _at: usize, _img: &[u8]) -> &'static str {
    match d {
        Desc::Vec { .. } => "vec_elem",
        Desc::Flex { .. } => "flex_item",
        Desc::Str { .. } => "str",
        Desc::Array(..) => "array",
        Desc::Struct { sized: false, fields } => match fields.last() {
            Some(Desc::Vec { .. }) => "struct.vec",
            Some(Desc::Flex { .. }) => "struct.flex",
            Some(Desc::Str { .. }) => "struct.str",
            _ => "struct",
        },
        Desc::Struct { .. } => "struct",
        Desc::Enum { .. } => "enum",
        _ => "leaf",
    }
}

fn main() {
    run_engine(Decode)
}
