//! E2: explicit-state search (stateright BFS) over byte images of a mapped value. Every
//! transition copies the image into a guarded buffer, maps it with the checked API, applies ONE
//! real operation, and compares every observable with the reference model (refmodel::model).
//! Serves C11, C12, C13, C18 and the every-reachable-state part of C05 and C14.

use engines::*;
use harness::guard::Arena;
use harness::report::{catch, hex, journal, unhex, Args, PropAcc};
use harness::ShapeDyn;
use refmodel::model::{caps, enabled_ops, predict, Expect};
use refmodel::ops::{Kind, Op, OpOut, PathOp};
use refmodel::tree::decode_tree;
use refmodel::values::{enum_values, scale_ladder, scaled_value, Limits};
use refmodel::{decode, encode, Desc, Value};
use serde_json::json;
use stateright::{Checker, Model, Property};
use std::cell::RefCell;
use std::sync::{Arc, Mutex};

struct Hist;

#[derive(Clone, Debug, Hash, PartialEq, Eq)]
struct HState {
    img: Vec<u8>,
}

struct HModel {
    s: &'static dyn ShapeDyn,
    d: Desc,
    n: usize,
    inits: Vec<Vec<u8>>,
    thorough: bool,
    clamp: bool,
    sink: Arc<Mutex<Accs>>,
    want: Vec<&'static str>,
}

thread_local! {
    static ARENA: RefCell<Option<Arena>> = const { RefCell::new(None) };
}

fn panic_site(p: &str) -> String {
    p.rsplit(" at ").next().unwrap_or("").to_string()
}

fn op_name(op: &Op) -> &'static str {
    match op {
        Op::VecPush(_) => "vec.push",
        Op::VecPop => "vec.pop",
        Op::VecPushSlice(_) => "vec.push_slice",
        Op::VecExtend(_) => "vec.extend_until_full",
        Op::VecTruncate(_) => "vec.truncate",
        Op::VecClear => "vec.clear",
        Op::VecRemove(_) => "vec.remove",
        Op::VecSwapRemove(_) => "vec.swap_remove",
        Op::VecResize(..) => "vec.resize",
        Op::VecSet(..) => "vec.set",
        Op::VecReverse => "vec.reverse",
        Op::StrPush(_) => "str.push",
        Op::StrPushStr(_) => "str.push_str",
        Op::StrClear => "str.clear",
        Op::StrUpper => "str.make_ascii_uppercase",
        Op::FlexPush(..) => "flex.push",
        Op::FlexPushDefault => "flex.push_default",
        Op::FlexPushFailing => "flex.push(failing emplacer)",
        Op::FlexPop => "flex.pop",
        Op::FlexTruncate(_) => "flex.truncate",
        Op::FlexClear => "flex.clear",
        Op::Assign(..) => "assign_in_place",
        Op::Set(_) => "field write",
    }
}

/// which property owns a content disagreement on this operation
fn owner(op: &Op) -> &'static str {
    match op {
        Op::VecPush(_) | Op::VecPop | Op::VecPushSlice(_) | Op::VecExtend(_) | Op::VecTruncate(_) | Op::VecClear | Op::VecRemove(_) | Op::VecSwapRemove(_) | Op::VecResize(..) | Op::VecSet(..) | Op::VecReverse => "C11",
        Op::StrPush(_) | Op::StrPushStr(_) | Op::StrClear | Op::StrUpper => "C11",
        Op::FlexPush(..) | Op::FlexPushDefault | Op::FlexPushFailing | Op::FlexPop | Op::FlexTruncate(_) | Op::FlexClear => "C12",
        Op::Assign(..) => "C18",
        Op::Set(_) => "C14",
    }
}

fn cause_key(c: Option<&'static str>) -> &'static str {
    match c {
        Some(c) if c.contains("replacement's minimum") => "below_minimum",
        Some(c) if c.contains("nested composite below") => "nested_minimum",
        Some(c) if c.contains("nested container") => "nested_container_content",
        Some(c) if c.contains("nested flex") => "nested_flex_content",
        Some(c) if c.contains("container content") => "container_content",
        Some(c) if c.contains("flex content") => "flex_content",
        _ => "other",
    }
}

struct StepResult {
    post: Option<Vec<u8>>,
    viol: Vec<(&'static str, String, String)>,
    refused: Option<&'static str>,
    outcome: &'static str,
}

/// One transition: the real call on a copy of `img`, judged against the model.
fn step(s: &dyn ShapeDyn, d: &Desc, img: &[u8], pop: &PathOp) -> StepResult {
    let mut res = StepResult { post: None, viol: vec![], refused: None, outcome: "ok" };
    let own = owner(&pop.op);
    let name = op_name(&pop.op);
    let (tree, _) = match decode_tree(d, img) {
        Ok(t) => t,
        Err(e) => {
            res.viol.push((own, format!("prestate_invalid/{}", name), format!("reference rejects the pre-state: {:?}", e)));
            return res;
        }
    };
    let pred = match predict(d, &tree, pop) {
        Some(p) => p,
        None => {
            res.outcome = "not_applicable";
            return res;
        }
    };
    let pre_value = tree.value();
    let n = img.len();
    ARENA.with(|cell| {
        let mut g = cell.borrow_mut();
        if g.as_ref().map(|a| a.capacity() < n).unwrap_or(true) {
            *g = Some(Arena::new(n.max(4096)));
        }
        let arena = g.as_mut().unwrap();
        let mut slot = arena.place(n, 0, 0);
        slot.bytes_mut().copy_from_slice(img);
        let base = slot.addr();
        let r = catch(|| s.apply(slot.bytes_mut(), std::slice::from_ref(pop)));
        let after = slot.bytes().to_vec();
        if let Err(e) = slot.check() {
            res.viol.push(("C14", format!("canary/{}", name), e));
        }
        // The same call through FlatWrap (validated once, then every access maps the whole slice unchecked): on a
        // slice whose length is not a multiple of ALIGN the two ways of mapping must still see the same value.
        if n % d.align() != 0 {
            slot.bytes_mut().copy_from_slice(img);
            let rw = catch(|| s.apply_wrapped(slot.bytes_mut(), std::slice::from_ref(pop)));
            let after_w = slot.bytes().to_vec();
            let _ = &after_w;
            if let Err(e) = slot.check() {
                res.viol.push(("C14", format!("canary/wrapped/{}", name), e));
            }
            match (&r, &rw) {
                (Ok(Ok((o1, ob1))), Ok(Ok((o2, ob2)))) => {
                    if ob2.size > n || ob2.size_of_val > n {
                        res.viol.push(("C05", format!("wrapped_size_gt_slice/{}", name), format!("through FlatWrap: size() {} / size_of_val {} > slice {}", ob2.size, ob2.size_of_val, n)));
                    }
                    // (the raw bytes are not compared: padding inside by-value elements is whatever the stack held)
                    if o1 != o2 || ob1.value != ob2.value || ob1.size != ob2.size {
                        res.viol.push((own, format!("wrapped_differs/{}", name), format!("from_mut_bytes gives {:?} / {:?} size {}, FlatWrap gives {:?} / {:?} size {} (bytes {} vs {})", o1, ob1.value.0, ob1.size, o2, ob2.value.0, ob2.size, hex(&after), hex(&after_w))));
                    }
                }
                (Ok(Err(_)), Ok(Err(_))) => {}
                (Err(_), _) => {} // the panic of the checked path is reported below
                (_, Err(p)) => res.viol.push((own, format!("panic/wrapped/{}/{}", name, panic_site(p)), format!("through FlatWrap: panic: {}", p))),
                _ => res.viol.push((own, format!("wrapped_differs/{}", name), "one way of mapping accepts the image, the other refuses it".into())),
            }
        }
        let (outs, obs) = match r {
            Err(p) => {
                res.viol.push((own, format!("panic/{}/{}", name, panic_site(&p)), format!("panic: {}", p)));
                // the call includes observing the post-state (accessors, size()): C05 holds in every reachable state
                res.viol.push(("C05", format!("panic/{}/{}", name, panic_site(&p)), format!("panic during the call or while observing the result (size(), accessors): {}", p)));
                res.outcome = "panic";
                return;
            }
            Ok(Err(e)) => {
                res.viol.push((own, format!("prestate_rejected/{}", name), format!("from_mut_bytes rejects a reachable image: {:?}", e)));
                return;
            }
            Ok(Ok(x)) => x,
        };
        let out = outs.into_iter().next().unwrap_or(OpOut::BadPath);
        if out == OpOut::BadPath {
            if matches!(pop.op, Op::FlexPushDefault) {
                // the glue has no `push_default` for this item type (e.g. arrays): the operation is not offered
                res.outcome = "not_applicable";
                return;
            }
            res.viol.push((own, format!("badpath/{}", name), "the real value has no node at the path the reference has".into()));
            return;
        }
        let was_refused = matches!(out, OpOut::Refused(_));
        // ---- result of the call vs model
        let (exp_value, allowed_refusal, must_ok): (Value, bool, bool) = match &pred.expect {
            Expect::Ok(v, took) => {
                if let (Some(t), OpOut::Took(rt)) = (took, &out) {
                    // FlexVec::pop returns () (reported as Took(None)); only compare when both carry values
                    if !(matches!(pop.op, Op::FlexPop)) && t != rt {
                        res.viol.push((own, format!("returned/{}", name), format!("returned {:?}, model {:?}", rt, t)));
                    }
                }
                (v.clone(), false, true)
            }
            Expect::Refused => (pre_value.clone(), true, false),
            Expect::Either(v) => (if was_refused { pre_value.clone() } else { v.clone() }, true, false),
        };
        if was_refused && !allowed_refusal {
            res.viol.push((own, format!("spurious_refusal/{}", name), format!("refused ({:?}) although the model says it fits", out)));
        }
        if !was_refused && !must_ok && matches!(pred.expect, Expect::Refused) {
            // the call reported success where the model says it must be refused
            res.viol.push((own, format!("accepted_unfit/{}", name), format!("succeeded although the model refuses it ({})", pred.refusal_cause.unwrap_or("-"))));
        }
        if was_refused {
            res.refused = pred.refusal_cause.or(Some("refused"));
            res.outcome = "refused";
        }
        // ---- post-state: must be valid, must re-map to what the accessors show
        let post_dec = decode_tree(d, &after);
        let mut problems: Vec<String> = obs.walk.problems.clone();
        for (p, l, what) in &obs.walk.ranges {
            if !(*p >= base && p + l <= base + n) {
                problems.push(format!("{} at +{}..+{} outside the slice of {}", what, *p as isize - base as isize, *p as isize - base as isize + *l as isize, n));
            }
        }
        if !obs.revalidate_ok {
            problems.push("validate(as_bytes()) fails after the call".into());
        }
        match &post_dec {
            Err(e) => problems.push(format!("reference rejects the post-state: {:?}", e)),
            Ok((pt, _)) => {
                if pt.value() != obs.value.0 {
                    problems.push(format!("accessors show {:?} but the bytes decode to {:?}", obs.value.0, pt.value()));
                }
                let mut rc = vec![];
                caps(pt, &mut rc);
                if rc != obs.walk.caps {
                    problems.push(format!("capacities {:?} != reference {:?}", obs.walk.caps, rc));
                }
                // C05 on every reachable state
                if obs.size != pt.extent {
                    if own == "C11" {
                        // size() is part of the observable state C11 compares with the Vec/String model
                        res.viol.push(("C11", format!("size/{}", name), format!("size() {} but a vector/string with this content occupies {} bytes", obs.size, pt.extent)));
                    }
                    res.viol.push(("C05", format!("size_vs_extent/{}", name), format!("size() {} != reference extent {} after {}", obs.size, pt.extent, name)));
                } else if obs.size <= n {
                    match catch(|| s.from_bytes(&after[..obs.size])) {
                        Ok(Ok(o2)) if o2.value.0 == obs.value.0 && o2.size == obs.size => {}
                        other => res.viol.push(("C05", format!("remap/{}", name), format!("first size()={} bytes re-map to {:?}", obs.size, other.map(|r| r.map(|o| (o.value.0, o.size)))))),
                    }
                }
            }
        }
        if obs.size > n {
            res.viol.push(("C05", format!("size_gt_slice/{}", name), format!("size() {} > slice {}", obs.size, n)));
        }
        if let Some(p) = problems.first() {
            let what = p.split(|c: char| c.is_ascii_digit()).next().unwrap_or("").trim().replace(' ', "_");
            if was_refused && matches!(pop.op, Op::Assign(..)) {
                res.viol.push(("C18", format!("poststate_after_refused/{}/{}/{}", name, cause_key(pred.refusal_cause), what), format!("({}) {}", pred.refusal_cause.unwrap_or("-"), problems.join("; "))));
            } else {
                let prop = if was_refused { "C13" } else { own };
                res.viol.push((prop, format!("poststate/{}/{}", name, what), problems.join("; ")));
            }
        }
        // ---- content
        if obs.value.0 != exp_value {
            if was_refused {
                if let Op::Assign(_, k) = &pop.op {
                    // kind Grow is a harness-written emplacer (Empty, then pushes): it legitimately stops
                    // half-way, so only validity is judged for it, not "unchanged"
                    let harness_driven = *k == Kind::Grow;
                    if !harness_driven {
                        let cause = cause_key(pred.refusal_cause);
                        res.viol.push(("C18", format!("refused_but_changed/{}/{}", name, cause), format!("refused ({:?}; {}) but content changed from {:?} to {:?}", out, pred.refusal_cause.unwrap_or("-"), pre_value, obs.value.0)));
                    }
                } else {
                    res.viol.push(("C13", format!("refused_but_changed/{}", name), format!("refused ({:?}) but content changed from {:?} to {:?}", out, pre_value, obs.value.0)));
                }
            } else {
                res.viol.push((own, format!("content/{}", name), format!("content {:?}, model {:?}", obs.value.0, exp_value)));
            }
        }
        // ---- C11: the type's own `==` / `partial_cmp` between the new and the old mapped value agree with the model
        if own == "C11" && pop.path.is_empty() && problems.is_empty() {
            match catch(|| s.eq_real(&after, img)) {
                Ok(Ok(Some((eq, ord)))) => {
                    let model_eq = obs.value.0 == pre_value;
                    let back = catch(|| s.eq_real(img, &after)).ok().and_then(|r| r.ok()).flatten();
                    let sym_ok = match (ord, back) {
                        (Some(o), Some((eq2, Some(o2)))) => o2 == o.reverse() && eq2 == eq,
                        _ => true,
                    };
                    let str_ok = match (&obs.value.0, &pre_value) {
                        (Value::Str(a), Value::Str(b)) => ord == Some(a.cmp(b)),
                        _ => true,
                    };
                    // equal contents: `==` true and the ordering Equal or undefined (vectors of portable floats
                    // compare equal byte-wise even for NaN, whose ordering is None); different: neither
                    let ord_ok = if model_eq { matches!(ord, Some(std::cmp::Ordering::Equal) | None) } else { ord != Some(std::cmp::Ordering::Equal) };
                    if eq != model_eq || !ord_ok || !sym_ok || !str_ok {
                        res.viol.push(("C11", format!("equality/{}", name), format!("`==` gives {} and partial_cmp {:?} between {:?} and {:?}", eq, ord, obs.value.0, pre_value)));
                    }
                }
                Ok(Ok(None)) => {}
                other => res.viol.push(("C11", format!("equality_failed/{}", name), format!("comparing two mapped values failed: {:?}", other.map(|r| r.map(|_| ()))))),
            }
        }
        // ---- C13 / C18 on refusal: size and validity as before; bytes inside the old extent untouched
        if was_refused {
            if obs.size != tree.extent && !matches!(pop.op, Op::Assign(..)) {
                res.viol.push(("C13", format!("refused_size/{}", name), format!("size() {} -> {} across a refused call", tree.extent, obs.size)));
            }
            // (bytes are judged by C14's footprint rule only: C13 speaks of the observable state, and a
            // refused call that rewrites padding inside the extent is not observable)
            let _ = pred.keep_on_refusal;
        }
        // ---- C14: footprint
        let mut allowed = vec![false; n];
        for (lo, hi) in &pred.touch {
            for i in *lo..(*hi).min(n) {
                allowed[i] = true;
            }
        }
        if let Some(i) = (0..n).find(|i| after[*i] != img[*i] && !allowed[*i]) {
            res.viol.push(("C14", format!("footprint/{}", name), format!("byte {} changed ({:02x} -> {:02x}) outside the part being changed {:?}", i, img[i], after[i], pred.touch)));
        }
        res.post = Some(after);
    });
    res
}

impl Model for HModel {
    type State = HState;
    type Action = PathOp;

    fn init_states(&self) -> Vec<HState> {
        self.inits.iter().map(|i| HState { img: i.clone() }).collect()
    }

    fn actions(&self, st: &HState, out: &mut Vec<PathOp>) {
        if let Ok((t, _)) = decode_tree(&self.d, &st.img) {
            if self.clamp {
                let x = Value::Scalar(1);
                let y = Value::Scalar(2);
                out.push(PathOp { path: vec![], op: Op::VecExtend((0..100).map(|i| if i % 2 == 0 { x.clone() } else { y.clone() }).collect()) });
                out.push(PathOp { path: vec![], op: Op::VecPush(x.clone()) });
                out.push(PathOp { path: vec![], op: Op::VecPushSlice(vec![x.clone(), y.clone(), x.clone()]) });
                out.push(PathOp { path: vec![], op: Op::VecPop });
                out.push(PathOp { path: vec![], op: Op::VecTruncate(253) });
                out.push(PathOp { path: vec![], op: Op::VecClear });
                out.push(PathOp { path: vec![], op: Op::VecResize(255, y) });
            } else {
                out.extend(enabled_ops(&self.d, &t, self.thorough));
            }
        }
    }

    fn next_state(&self, st: &HState, pop: PathOp) -> Option<HState> {
        journal(format!("hist {} n={} img={} op={:?}", self.s.id(), self.n, hex(&st.img), pop).as_bytes());
        let r = step(self.s, &self.d, &st.img, &pop);
        // stateright runs this on its own worker thread, which goes away with the checker: never
        // leave its journal slot marked as "inside a case"
        harness::report::journal_idle();
        record(&self.sink, &self.want, self.s, self.n, &st.img, &pop, &r, &self.d, Origin::Search);
        if !r.viol.is_empty() {
            // a state that only exists because of a violation is recorded, not expanded
            return None;
        }
        r.post.map(|img| HState { img })
    }

    fn properties(&self) -> Vec<Property<Self>> {
        vec![Property::always("explore", |_, _| true)]
    }
}

/// Where the pre-state of a judged transition comes from.
#[derive(Clone, Copy)]
enum Origin {
    /// a state of the BFS (recorded by its byte image)
    Search,
    /// reference image of `scaled_value(N)` with `slack` spare bytes
    Ladder(usize, usize),
    /// reference image of small value number `vi` in a buffer of `b` bytes
    Big(usize, usize),
}

/// Account one judged transition (counters, samples, violations) under the properties it belongs to.
/// `scale`: the pre-state is the reference image of `scaled_value(N)` with `slack` spare bytes; it is recorded
/// by those two numbers instead of its (large) byte image.
#[allow(clippy::too_many_arguments)]
fn record(sink: &Arc<Mutex<Accs>>, want: &[&'static str], s: &dyn ShapeDyn, n: usize, img: &[u8], pop: &PathOp, r: &StepResult, d: &Desc, scale: Origin) {
    let id = s.id();
    let fam = family(id);
    let mut g = sink.lock().unwrap();
    for p in want {
        if let Some(a) = g.get_mut(p) {
            let mine = match *p {
                "C11" | "C12" | "C18" => owner(&pop.op) == *p,
                "C13" => r.refused.is_some() || r.viol.iter().any(|v| v.0 == "C13"),
                _ => true,
            };
            if mine && r.outcome != "not_applicable" {
                a.transitions += 1;
                a.evaluations += 1;
                a.count(r.outcome, 1);
                match scale {
                    Origin::Ladder(nn, _) => {
                        a.count("scale_ladder_steps", 1);
                        a.distinct.insert(format!("{}:scale{}:{}:{}", id, nn, op_name(&pop.op), r.outcome));
                    }
                    Origin::Big(b, _) => {
                        a.count("big_buffer_steps", 1);
                        a.distinct.insert(format!("{}:big{}:{}:{}", id, b, op_name(&pop.op), r.outcome));
                    }
                    Origin::Search => {
                        a.distinct.insert(format!("{}:{}:{}", id, op_name(&pop.op), r.outcome));
                    }
                }
                if let Some(c) = r.refused {
                    a.count(&format!("refused[{}]", c), 1);
                }
                if matches!(scale, Origin::Search) && a.samples.len() < 3 && r.outcome == "ok" && img.len() > d.min_size() {
                    a.sample(json!({"shape": id, "n": n, "pre_image": hex(img), "op": format!("{:?}", pop), "post_image": r.post.as_ref().map(|p| hex(p))}));
                }
            }
        }
    }
    for (p, key, detail) in &r.viol {
        if let Some(a) = g.get_mut(p) {
            let optxt: String = format!("{:?}", pop).chars().take(300).collect();
            match scale {
                Origin::Search => a.violate(
                    format!("hist/{}/{}", key, fam),
                    format!("{} n={} image={} op={:?}: {}", id, n, hex(img), pop, detail),
                    json!({"engine": "hist", "shape": id, "image": hex(img), "op": format!("{:?}", pop), "path": pop.path, "opidx": -1}),
                ),
                Origin::Ladder(nn, slack) => a.violate(
                    format!("hist/{}/{}", key, fam),
                    format!("{} scale N={} slack={} (buffer {} bytes) op={}: {}", id, nn, slack, n, optxt, detail.chars().take(600).collect::<String>()),
                    json!({"engine": "hist", "shape": id, "scale": nn, "slack": slack, "op": format!("{:?}", pop), "path": pop.path}),
                ),
                Origin::Big(b, vi) => a.violate(
                    format!("hist/{}/{}", key, fam),
                    format!("{} small value #{} in a buffer of {} bytes, op={}: {}", id, vi, b, optxt, detail.chars().take(600).collect::<String>()),
                    json!({"engine": "hist", "shape": id, "big_buffer": b, "vi": vi, "image": if img.len() <= 1024 { json!(hex(img)) } else { json!(null) }, "op": format!("{:?}", pop), "path": pop.path}),
                ),
            }
        }
    }
}

/// The operations tried from a ladder state: everything on the container itself and on its first, middle and
/// last element / item (the per-item operations of the thousands of items in between are the same code on the
/// same kind of data).
fn scale_ops(all: Vec<PathOp>, nn: usize) -> Vec<PathOp> {
    let keep_idx = [0usize, 1, nn / 2, nn.saturating_sub(2), nn.saturating_sub(1)];
    let mut out: Vec<PathOp> = all
        .into_iter()
        .filter(|p| {
            // the element index is the last path component that can exceed 3 (field / payload indices are small)
            p.path.iter().all(|i| *i < 4 || keep_idx.contains(i))
        })
        .collect();
    // index-carrying operations at the far end as well
    let mut extra = vec![];
    for p in &out {
        match &p.op {
            Op::VecRemove(0) => {
                for i in [nn / 2, nn.saturating_sub(1)] {
                    extra.push(PathOp { path: p.path.clone(), op: Op::VecRemove(i) });
                    extra.push(PathOp { path: p.path.clone(), op: Op::VecSwapRemove(i) });
                }
            }
            Op::VecTruncate(0) => {
                for k in [nn / 2, nn.saturating_sub(1), nn, nn + 1] {
                    extra.push(PathOp { path: p.path.clone(), op: Op::VecTruncate(k) });
                }
            }
            Op::FlexTruncate(0) => {
                for k in [nn / 2, nn.saturating_sub(1), nn, nn + 1] {
                    extra.push(PathOp { path: p.path.clone(), op: Op::FlexTruncate(k) });
                }
            }
            Op::VecSet(0, x) => {
                for i in [nn / 2, nn.saturating_sub(1)] {
                    extra.push(PathOp { path: p.path.clone(), op: Op::VecSet(i, x.clone()) });
                }
            }
            _ => {}
        }
    }
    out.extend(extra);
    out
}

/// Operations whose ARGUMENT is large: extend / push_str up to and past the capacity, pushes of items whose
/// sealing offset lies around the maximum of the offset type — at every path where the small alphabet has
/// the corresponding small operation.
fn big_ops(d: &Desc, tree: &refmodel::tree::TNode, small: &[PathOp]) -> Vec<PathOp> {
    use refmodel::model::desc_at;
    use refmodel::tree::TKind;
    let mut out = vec![];
    let mut seen: Vec<Vec<usize>> = vec![];
    for p in small {
        if seen.contains(&p.path) || p.path.iter().any(|i| *i > 3) {
            continue;
        }
        let node = match tree.at_path(&p.path) {
            Some(n) => n,
            None => continue,
        };
        let nd = desc_at(d, tree, &p.path);
        match (&p.op, &node.kind, nd) {
            (Op::VecPush(x), TKind::Vec { cap, items, .. }, Desc::Vec { len, .. }) => {
                seen.push(p.path.clone());
                let room = cap.saturating_sub(items.len());
                let lmax = len.max().min(1 << 20) as usize;
                let mut ks = vec![room.saturating_sub(1), room, room + 1, lmax.saturating_sub(items.len()), lmax + 1];
                ks.retain(|k| *k > 5 && *k <= 70_100);
                ks.sort();
                ks.dedup();
                for k in ks {
                    out.push(PathOp { path: p.path.clone(), op: Op::VecExtend((0..k).map(|_| x.clone()).collect()) });
                }
                if *cap > 8 && *cap <= 70_100 {
                    out.push(PathOp { path: p.path.clone(), op: Op::VecResize(*cap, x.clone()) });
                    out.push(PathOp { path: p.path.clone(), op: Op::VecResize(*cap + 1, x.clone()) });
                }
            }
            (Op::StrPush(_), TKind::Str { cap, bytes, .. }, _) => {
                seen.push(p.path.clone());
                let room = cap.saturating_sub(bytes.len());
                let mut ks = vec![room.saturating_sub(1), room, room + 1];
                ks.retain(|k| *k > 5 && *k <= 70_100);
                ks.dedup();
                for k in ks {
                    out.push(PathOp { path: p.path.clone(), op: Op::StrPushStr("x".repeat(k)) });
                    if k >= 2 {
                        out.push(PathOp { path: p.path.clone(), op: Op::StrPushStr(format!("{}é", "y".repeat(k - 2))) });
                    }
                }
            }
            (Op::FlexPush(_, kind), TKind::Flex { .. }, Desc::Flex { item, len }) => {
                seen.push(p.path.clone());
                // element counts that put the item's sealing offset just below, at and above the offset type's maximum
                let lmax = len.max().min(1 << 17) as usize;
                let mut ks: Vec<usize> = vec![100, 200];
                for dlt in 0..8usize {
                    ks.push(lmax.saturating_sub(dlt));
                }
                ks.push(lmax + 1);
                ks.retain(|k| *k > 5 && *k <= 70_100);
                ks.sort();
                ks.dedup();
                for k in ks {
                    if let Some(v) = scaled_value(item, k) {
                        out.push(PathOp { path: p.path.clone(), op: Op::FlexPush(v, *kind) });
                    }
                }
            }
            _ => {}
        }
    }
    out
}

fn top_kind(d: &Desc) -> &'static str {
    match d {
        Desc::Vec { .. } => "vec",
        Desc::Str { .. } => "str",
        Desc::Flex { .. } => "flex",
        Desc::Struct { .. } => "struct",
        Desc::Enum { .. } => "enum",
        _ => "leaf",
    }
}

/// Number of items of the first FlexVec found in the value (0 if there is none).
fn flex_items(v: &Value) -> usize {
    match v {
        Value::Flex(items) => items.len(),
        Value::Struct(f) | Value::Enum(_, f) | Value::Array(f) | Value::Vec(f) => f.iter().map(flex_items).max().unwrap_or(0),
        _ => 0,
    }
}

fn elem_size(d: &Desc) -> usize {
    match d {
        Desc::Vec { elem, .. } => elem.size().max(1),
        Desc::Str { .. } => 1,
        Desc::Flex { item, .. } => d.data_offset() + refmodel::ceil(item.min_size().max(1), d.align()),
        Desc::Struct { fields, .. } => elem_size(fields.last().unwrap()),
        Desc::Enum { variants, .. } => variants.iter().filter_map(|v| v.last()).filter(|f| !f.is_sized()).map(elem_size).max().unwrap_or(1),
        _ => 1,
    }
}

impl Engine for Hist {
    const NAME: &'static str = "hist";

    fn cost(&self, s: &dyn ShapeDyn) -> usize {
        let d = s.desc();
        match top_kind(&d) {
            "flex" => 100,
            "struct" | "enum" => 50,
            _ => 10,
        }
    }

    fn run(&self, s: &'static dyn ShapeDyn, args: &Args) -> Accs {
        let id = s.id();
        let d = s.desc();
        let mut m = Accs::new();
        if d.is_sized() {
            return m;
        }
        let kind = top_kind(&d);
        let all = ["C05", "C11", "C12", "C13", "C14", "C18"];
        let want: Vec<&'static str> = all.iter().filter(|p| args.wants(p)).cloned().collect();
        // which shapes serve the requested properties
        let serves = |p: &str| match p {
            "C11" => kind == "vec" || kind == "str",
            "C12" => kind == "flex",
            "C13" => kind != "leaf",
            "C18" | "C05" | "C14" => true,
            _ => false,
        };
        if !want.iter().any(|p| serves(p)) {
            return m;
        }
        for p in &want {
            m.insert(*p, PropAcc::default());
        }
        let thorough = args.thorough();
        let a = d.align();
        let min = d.min_size();
        let es = elem_size(&d);
        // buffer lengths: each single length from MIN_SIZE up to room for a few elements / items
        // a FlexVec needs room for three items, one of them larger than the minimum: pop / truncate locate the last kept
        // slot behind items that may have been edited in place (S144)
        let items = if top_kind(&d) == "flex" { 1 } else { 0 };
        let span = if thorough { ((3 + items) * es + a).min(32) } else { ((2 + items) * es + a).min(20) };
        let mut lens: Vec<usize> = (min..=min + span).collect();
        if !thorough {
            // quick: every length in the first alignment period, then aligned steps only
            lens.retain(|n| *n <= min + a || (*n - min) % a == 0);
        }
        let cap_states = if thorough { 400_000 } else { 40_000 };
        let sink = Arc::new(Mutex::new(m));
        let mut total_states = 0u64;
        let mut closed = 0u64;
        let mut capped = 0u64;
        let mut configs: Vec<(usize, bool)> = lens.iter().map(|n| (*n, false)).collect();
        if id == "vec(u8,u8)" && (want.contains(&"C11") || want.contains(&"C13")) {
            configs.push((1 + 300, true)); // capacity above the length type's maximum
        }
        // a last item whose sealing offset is at / next to the maximum of the offset type
        let seal_boundary = id == "flex(vec(u8,u8),u8)";
        if seal_boundary {
            configs.push((300, false));
        }
        if format!("{:?}", d).contains("Flex") {
            // one buffer that holds three items none of which is the smallest (see the initial states below)
            let roomy = min + 64;
            let vals = enum_values(&d, roomy, &Limits { flex_len: 3, max_values: 96, ..Limits::quick() });
            let most = vals.iter().map(flex_items).max().unwrap_or(0);
            if most >= 3 {
                if let Some(v) = vals.iter().filter(|v| flex_items(v) == most).last() {
                    if let Ok(img) = encode(&d, v, roomy, 0) {
                        let n3 = refmodel::ceil(img.extent, a.max(1));
                        if !configs.iter().any(|(n, _)| *n == n3) {
                            configs.push((n3, false));
                        }
                    }
                }
            }
        }
        for (n, clamp) in configs {
            // initial states: default_in_place on two fills, plus the smallest and largest fitting value
            let mut inits: Vec<Vec<u8>> = vec![];
            for fill in [0x00u8, 0xEE] {
                let mut buf = harness_aligned(n, fill);
                if let Some(Ok(_)) = catch(|| s.default_in_place(buf.as_mut()).map(|r| r.map(|_| ()))).unwrap_or(None) {
                    inits.push(buf.as_ref().to_vec());
                }
            }
            if !clamp {
                let vals = enum_values(&d, n, &Limits::quick());
                let mut picks: Vec<&Value> = vec![];
                if let Some(v) = vals.first() {
                    picks.push(v);
                }
                if let Some(v) = vals.last() {
                    picks.push(v);
                }
                if let Desc::Enum { variants, .. } = &d {
                    for vi in 0..variants.len() {
                        if let Some(v) = vals.iter().find(|v| matches!(v, Value::Enum(t, _) if *t == vi)) {
                            picks.push(v);
                        }
                    }
                }
                for v in picks {
                    let mut buf = harness_aligned(n, 0xEE);
                    if let Ok(Ok(_)) = catch(|| s.new_in_place(buf.as_mut(), v, Kind::Iter).map(|_| ())) {
                        inits.push(buf.as_ref().to_vec());
                    }
                    // the other documented chain form as a starting point
                    if let Ok(img) = refmodel::encode_opt(&d, v, n, 0xEE, true) {
                        if decode(&d, &img.bytes).is_ok() {
                            inits.push(img.bytes);
                        }
                    }
                }
            }
            if !clamp && format!("{:?}", d).contains("Flex") {
                // the other documented chain form needs one more slot than the MAX-marked one, so the largest
                // fitting value never has it: take the two largest values whose zero-terminated image fits
                // (foreign bytes; the library itself never writes this form)
                let vals = enum_values(&d, n, &Limits::quick());
                let mut taken = 0;
                for v in vals.iter().rev() {
                    if let Ok(img) = refmodel::encode_opt(&d, v, n, 0xEE, true) {
                        if decode(&d, &img.bytes).is_ok() && !inits.contains(&img.bytes) {
                            inits.push(img.bytes);
                            taken += 1;
                            if taken == 2 {
                                break;
                            }
                        }
                    }
                }
            }
            if !clamp && format!("{:?}", d).contains("Flex") {
                // histories that first build three items and then edit the front one lie beyond the transition cap of the
                // larger buffers: start from such values as well (most items, then the first and the last in value order —
                // the last has the largest front item), so that "shrink a sealed item, then pop / truncate" is two steps away
                let vals = enum_values(&d, n, &Limits { flex_len: 3, max_values: 96, ..Limits::quick() });
                let most = vals.iter().map(flex_items).max().unwrap_or(0);
                if most >= 3 {
                    let with: Vec<&Value> = vals.iter().filter(|v| flex_items(v) == most).collect();
                    for v in [with.first(), with.last()].into_iter().flatten() {
                        let mut buf = harness_aligned(n, 0xEE);
                        if let Ok(Ok(_)) = catch(|| s.new_in_place(buf.as_mut(), v, Kind::Iter).map(|_| ())) {
                            inits.push(buf.as_ref().to_vec());
                        }
                    }
                }
            }
            if seal_boundary && n == 300 {
                // items of 251..253 bytes: the offset that seals them is 253..255 = L::MAX-2 .. L::MAX
                inits.clear();
                for k in [251usize, 252, 253] {
                    let big = Value::Vec((0..k).map(|i| Value::Scalar((i % 2 + 1) as u128)).collect());
                    for v in [Value::Flex(vec![big.clone()]), Value::Flex(vec![Value::Vec(vec![Value::Scalar(7)]), big.clone()])] {
                        if let Ok(img) = encode(&d, &v, n, 0) {
                            inits.push(img.bytes);
                        }
                    }
                }
            }
            inits.sort();
            inits.dedup();
            if inits.is_empty() {
                continue;
            }
            let model = HModel { s, d: d.clone(), n, inits, thorough, clamp, sink: sink.clone(), want: want.clone() };
            let checker = model.checker().threads(1).target_state_count(cap_states).spawn_bfs().join();
            let uniq = checker.unique_state_count() as u64;
            let gen = checker.state_count() as u64;
            total_states += uniq;
            let hit = gen as usize >= cap_states;
            if hit {
                capped += 1;
            } else {
                closed += 1;
            }
            let mut g = sink.lock().unwrap();
            for a in g.values_mut() {
                a.states += uniq;
                if hit {
                    a.caps.push(format!("{} n={}: transition cap {} reached at depth {} ({} unique states); everything below that depth was explored", id, n, cap_states, checker.max_depth(), uniq));
                }
            }
        }
        // ---------------- scale ladder: single transitions (and the refusals at the full mark) from states far
        // beyond the small scope — container sizes around every power of two up to the 16-bit boundary
        let flex_top = matches!(kind, "flex") || format!("{:?}", d).contains("Flex");
        for nn in scale_ladder(thorough) {
            if flex_top && nn > 4100 {
                continue; // a chain of tens of thousands of items makes every step quadratic; stated in DESIGN.md
            }
            // the rungs above 1 100 cost seconds per state: only for the containers themselves (root vec / str)
            if nn > 1100 && !(kind == "vec" || kind == "str") {
                continue;
            }
            let v = match scaled_value(&d, nn) {
                Some(v) => v,
                None => continue,
            };
            let need = match encode(&d, &v, nn * 64 + 4096, 0) {
                Ok(i) => i.extent,
                Err(_) => continue,
            };
            for slack in [0usize, es, 2 * es + 1] {
                let n = need + slack;
                let img = match encode(&d, &v, n, 0xEE) {
                    Ok(i) => i.bytes,
                    Err(_) => continue,
                };
                let tree = match decode_tree(&d, &img) {
                    Ok((t, _)) => t,
                    Err(_) => continue,
                };
                for pop in scale_ops(enabled_ops(&d, &tree, false), nn) {
                    journal(format!("hist-scale {} N={} slack={} op={:?}", id, nn, slack, pop).as_bytes());
                    let r = step(s, &d, &img, &pop);
                    harness::report::journal_idle();
                    record(&sink, &want, s, n, &img, &pop, &r, &d, Origin::Ladder(nn, slack));
                }
                let mut g = sink.lock().unwrap();
                for a in g.values_mut() {
                    a.states += 1;
                }
            }
        }
        // ---------------- small contents in large buffers (capacities beyond the length type's maximum, sealing
        // offsets at the maximum of the offset type), with large arguments
        {
            let small_vals = enum_values(&d, min + 3 * a + 12, &Limits::quick());
            let mut picks: Vec<Value> = vec![];
            if let Some(v) = small_vals.first() {
                picks.push(v.clone());
            }
            if let Some(v) = small_vals.last() {
                picks.push(v.clone());
            }
            if let Desc::Enum { variants, .. } = &d {
                for vi in 0..variants.len() {
                    if let Some(v) = small_vals.iter().find(|v| matches!(v, Value::Enum(t, _) if *t == vi)) {
                        picks.push(v.clone());
                    }
                }
            }
            picks.sort();
            picks.dedup();
            let mut buffers: Vec<usize> = if thorough { buffer_ladder(true) } else { vec![128, 256, 257, 258, 260, 264, 300, 520] };
            buffers.retain(|b| *b <= 66_000);
            for (bi, b) in buffers.iter().enumerate() {
                for (vi, v) in picks.iter().enumerate() {
                    let img = match encode(&d, v, *b, if (bi + vi) % 2 == 0 { 0xEE } else { 0x00 }) {
                        Ok(i) => i.bytes,
                        Err(_) => continue,
                    };
                    let tree = match decode_tree(&d, &img) {
                        Ok((t, _)) => t,
                        Err(_) => continue,
                    };
                    let small = enabled_ops(&d, &tree, false);
                    let mut ops = big_ops(&d, &tree, &small);
                    ops.extend(small.into_iter().filter(|p| p.path.iter().all(|i| *i < 4)));
                    for pop in ops {
                        journal(format!("hist-big {} B={} vi={} op={:?}", id, b, vi, pop).chars().take(700).collect::<String>().as_bytes());
                        let r = step(s, &d, &img, &pop);
                        harness::report::journal_idle();
                        record(&sink, &want, s, *b, &img, &pop, &r, &d, Origin::Big(*b, vi));
                    }
                    let mut g = sink.lock().unwrap();
                    for a in g.values_mut() {
                        a.states += 1;
                    }
                }
            }
        }
        let _ = (total_states, closed, capped, encode(&d, &Value::Unit, 0, 0).is_ok());
        let mut m = std::mem::take(&mut *sink.lock().unwrap());
        for (p, a) in m.iter_mut() {
            a.count("configs_closed", closed);
            a.count("configs_capped", capped);
            a.exhaustive = capped == 0;
            let _ = p;
        }
        m
    }

    fn replay(&self, s: &'static dyn ShapeDyn, case: &serde_json::Value) -> bool {
        let d = s.desc();
        let want = case["op"].as_str().unwrap_or("");
        let mut found = None;
        let img = if let Some(nn) = case["scale"].as_u64() {
            // a ladder state: rebuilt from its size and slack
            let nn = nn as usize;
            let v = scaled_value(&d, nn).expect("scaled value");
            let need = encode(&d, &v, nn * 64 + 4096, 0).expect("encode").extent;
            let img = encode(&d, &v, need + case["slack"].as_u64().unwrap_or(0) as usize, 0xEE).expect("encode").bytes;
            if let Ok((t, _)) = decode_tree(&d, &img) {
                found = scale_ops(enabled_ops(&d, &t, false), nn).into_iter().find(|op| format!("{:?}", op) == want);
            }
            img
        } else if let Some(b) = case["big_buffer"].as_u64() {
            let (min, a) = (d.min_size(), d.align());
            let small_vals = enum_values(&d, min + 3 * a + 12, &Limits::quick());
            let mut picks: Vec<Value> = vec![];
            if let Some(v) = small_vals.first() {
                picks.push(v.clone());
            }
            if let Some(v) = small_vals.last() {
                picks.push(v.clone());
            }
            if let Desc::Enum { variants, .. } = &d {
                for vi in 0..variants.len() {
                    if let Some(v) = small_vals.iter().find(|v| matches!(v, Value::Enum(t, _) if *t == vi)) {
                        picks.push(v.clone());
                    }
                }
            }
            picks.sort();
            picks.dedup();
            let vi = case["vi"].as_u64().unwrap_or(0) as usize;
            let mut img = vec![];
            for fill in [0xEEu8, 0x00] {
                // the fill alternates with the position in the ladder; the op is looked up on both
                if let Ok(i) = encode(&d, &picks[vi], b as usize, fill) {
                    if let Ok((t, _)) = decode_tree(&d, &i.bytes) {
                        let small = enabled_ops(&d, &t, false);
                        let mut ops = big_ops(&d, &t, &small);
                        ops.extend(small);
                        if let Some(op) = ops.into_iter().find(|op| format!("{:?}", op) == want) {
                            found = Some(op);
                            img = i.bytes;
                            if case["image"].as_str().map(|h| unhex(h) == img).unwrap_or(true) {
                                break;
                            }
                        }
                    }
                }
            }
            img
        } else {
            unhex(case["image"].as_str().unwrap())
        };
        if let (None, Ok((t, _))) = (&found, decode_tree(&d, &img)) {
            for th in [false, true] {
                for op in enabled_ops(&d, &t, th) {
                    if format!("{:?}", op) == want {
                        found = Some(op);
                    }
                }
            }
        }
        let pop = match found {
            Some(p) => p,
            None => {
                println!("replay: operation {} is not enabled in the recorded state", want);
                return false;
            }
        };
        let r = step(s, &d, &img, &pop);
        if img.len() <= 256 {
            println!("shape {}  image {}  (reference: {:?})", s.id(), hex(&img), decode(&d, &img).map(|x| x.value));
        } else {
            println!("shape {}  image of {} bytes (ladder state)", s.id(), img.len());
        }
        println!("op {:?}", pop);
        println!("post image {:?}  outcome {}", r.post.as_ref().map(|p| hex(p)), r.outcome);
        for (p, k, dt) in &r.viol {
            println!("{}: {} :: {}", p, k, dt);
        }
        !r.viol.is_empty()
    }
}

/// 64-aligned heap buffer for building initial images
struct ABuf {
    raw: Vec<u8>,
    off: usize,
    n: usize,
}
impl ABuf {
    fn as_mut(&mut self) -> &mut [u8] {
        &mut self.raw[self.off..self.off + self.n]
    }
    fn as_ref(&self) -> &[u8] {
        &self.raw[self.off..self.off + self.n]
    }
}
fn harness_aligned(n: usize, fill: u8) -> ABuf {
    let raw = vec![fill; n + 64];
    let off = (64 - (raw.as_ptr() as usize % 64)) % 64;
    ABuf { raw, off, n }
}

fn main() {
    run_engine(Hist)
}
