//! C16: portable scalars. 16-bit types exhaustively, wider ones on a boundary lattice; every unary
//! fact on every value, every binary fact on every pair (quick: lattice x lattice; thorough: all
//! 65536 x lattice for 16-bit). "Equal" includes "both panic".

use flatty::portable::{be, le, Bool};
use flatty::prelude::*;
use harness::report::{self, catch, PropAcc, Report};
use num_traits::{Bounded, FromPrimitive, Num, NumCast, One, Signed, ToPrimitive, Zero};
use serde_json::json;


fn lattice64() -> Vec<u64> {
    let mut v: Vec<u64> = vec![0, 1, 2, 3, 0x7f, 0x80, 0xff, 0x100, 0x0102, 0x7fff, 0x8000, 0xffff, 0x1_0000, 0x0102_0304, 0x7fff_ffff, 0x8000_0000, 0xffff_ffff, 0x1_0000_0000, 0x0102_0304_0506_0708, 0x7fff_ffff_ffff_ffff, 0x8000_0000_0000_0000, u64::MAX, u64::MAX - 1];
    for s in 0..64 {
        let p = 1u64 << s;
        v.push(p);
        v.push(p.wrapping_sub(1));
        v.push(p.wrapping_add(1));
        v.push((!p).wrapping_add(1)); // -2^s
        v.push(!p);
    }
    v.sort();
    v.dedup();
    v
}

struct Ctx<'a> {
    acc: &'a mut PropAcc,
    ty: &'static str,
}
impl<'a> Ctx<'a> {
    fn fact(&mut self, name: &str, ok: bool, detail: impl FnOnce() -> String) {
        self.acc.evaluations += 1;
        if !ok {
            let d = detail();
            self.acc.violate(format!("portable/{}/{}", self.ty, name), format!("{}: {} :: {}", self.ty, name, d), json!({"engine": "portable", "type": self.ty, "fact": name, "detail": d}));
        }
    }
    fn seen(&mut self, name: &str) {
        self.acc.distinct.insert(format!("{}:{}", self.ty, name));
    }
}

macro_rules! int_checks {
    ($ctx:expr, $P:ty, $N:ty, $be:expr, $signed:expr, $vals:expr, $pairs_a:expr, $pairs_b:expr) => {{
        let ctx: &mut Ctx = $ctx;
        // ---- static facts
        ctx.fact("align", <$P as FlatBase>::ALIGN == 1 && core::mem::align_of::<$P>() == 1, || format!("ALIGN {}", <$P as FlatBase>::ALIGN));
        ctx.fact("size", <$P as FlatSized>::SIZE == core::mem::size_of::<$N>() && core::mem::size_of::<$P>() == core::mem::size_of::<$N>(), || "SIZE".into());
        ctx.fact("zero", <$N as From<$P>>::from(<$P as Zero>::zero()) == 0 as $N && <$P as Zero>::zero().to_bytes() == (0 as $N).to_le_bytes(), || "zero()".into());
        ctx.fact("one", <$N as From<$P>>::from(<$P as One>::one()) == 1 as $N, || "one()".into());
        ctx.fact("min_value", <$N as From<$P>>::from(<$P as Bounded>::min_value()) == <$N>::MIN, || "min_value()".into());
        ctx.fact("max_value", <$N as From<$P>>::from(<$P as Bounded>::max_value()) == <$N>::MAX, || "max_value()".into());
        ctx.fact("default", <$N as From<$P>>::from(<$P>::default()) == 0 as $N, || "default()".into());
        for s in ["0", "1", "-1", "7f", "ff", "zz", "", "65535", "65536", "-32768", "4294967296", "18446744073709551615"] {
            for radix in [10u32, 16] {
                let a = <$P as Num>::from_str_radix(s, radix).ok().map(|p| <$N as From<$P>>::from(p));
                let b = <$N as Num>::from_str_radix(s, radix).ok();
                ctx.fact("from_str_radix", a == b, || format!("{:?} radix {}: {:?} vs {:?}", s, radix, a, b));
            }
        }
        for w in lattice64() {
            let a = <$P as FromPrimitive>::from_u64(w).map(|p| <$N as From<$P>>::from(p));
            let b = <$N as FromPrimitive>::from_u64(w);
            ctx.fact("from_u64", a == b, || format!("{}: {:?} vs {:?}", w, a, b));
            let a = <$P as FromPrimitive>::from_i64(w as i64).map(|p| <$N as From<$P>>::from(p));
            let b = <$N as FromPrimitive>::from_i64(w as i64);
            ctx.fact("from_i64", a == b, || format!("{}: {:?} vs {:?}", w as i64, a, b));
            let a = <$P as FromPrimitive>::from_usize(w as usize).map(|p| <$N as From<$P>>::from(p));
            let b = <$N as FromPrimitive>::from_usize(w as usize);
            ctx.fact("from_usize", a == b, || format!("{}: {:?} vs {:?}", w, a, b));
            let a = <$P as NumCast>::from(w).map(|p| <$N as From<$P>>::from(p));
            let b = <$N as NumCast>::from(w);
            ctx.fact("numcast_u64", a == b, || format!("{}: {:?} vs {:?}", w, a, b));
            let a = <$P as NumCast>::from(w as i64).map(|p| <$N as From<$P>>::from(p));
            let b = <$N as NumCast>::from(w as i64);
            ctx.fact("numcast_i64", a == b, || format!("{}: {:?} vs {:?}", w as i64, a, b));
            let f = w as f64 * 0.5;
            let a = <$P as NumCast>::from(f).map(|p| <$N as From<$P>>::from(p));
            let b = <$N as NumCast>::from(f);
            ctx.fact("numcast_f64", a == b, || format!("{}: {:?} vs {:?}", f, a, b));
        }
        for name in ["align", "size", "zero", "one", "min_value", "max_value", "default", "from_str_radix", "from_u64", "from_i64", "from_usize", "numcast"] {
            ctx.seen(name);
        }
        // ---- unary facts
        for &n in $vals.iter() {
            let n: $N = n;
            let p = <$P as From<$N>>::from(n);
            let expect = if $be { n.to_be_bytes() } else { n.to_le_bytes() };
            ctx.fact("bytes", p.to_bytes() == expect && p.as_bytes() == &expect[..], || format!("{:#x}: stored {:02x?}, expected {:02x?}", n, p.to_bytes(), expect));
            ctx.fact("roundtrip", <$N as From<$P>>::from(p) == n, || format!("{:#x} -> {:#x}", n, <$N as From<$P>>::from(p)));
            ctx.fact("from_bytes", <$N as From<$P>>::from(<$P>::from_bytes(expect)) == n, || format!("{:#x}", n));
            ctx.fact("validate", <$P as FlatValidate>::validate(&expect).is_ok(), || format!("{:#x}", n));
            ctx.fact("is_zero", p.is_zero() == (n == 0), || format!("{:#x}", n));
            ctx.fact("to_u64", p.to_u64() == n.to_u64(), || format!("{:#x}: {:?} vs {:?}", n, p.to_u64(), n.to_u64()));
            ctx.fact("to_i64", p.to_i64() == n.to_i64(), || format!("{:#x}: {:?} vs {:?}", n, p.to_i64(), n.to_i64()));
            ctx.fact("to_usize", p.to_usize() == n.to_usize(), || format!("{:#x}: {:?} vs {:?}", n, p.to_usize(), n.to_usize()));
            ctx.fact("display", format!("{}", p) == format!("{}", n) && format!("{:?}", p) == format!("{:?}", n), || format!("{:#x}: {} / {:?}", n, p, p));
        }
        for name in ["bytes", "roundtrip", "from_bytes", "validate", "is_zero", "to_u64", "to_i64", "to_usize", "display"] {
            ctx.seen(name);
        }
        // ---- binary facts
        for &a in $pairs_a.iter() {
            let a: $N = a;
            report::journal(ctx.ty.as_bytes());
            let pa = <$P as From<$N>>::from(a);
            for &b in $pairs_b.iter() {
                let b: $N = b;
                let pb = <$P as From<$N>>::from(b);
                ctx.fact("eq_is_byte_eq", (pa == pb) == (pa.to_bytes() == pb.to_bytes()) && (pa == pb) == (a == b), || format!("{:#x} {:#x}", a, b));
                ctx.fact("cmp", pa.cmp(&pb) == a.cmp(&b) && pa.partial_cmp(&pb) == a.partial_cmp(&b), || format!("{:#x} {:#x}: {:?} vs {:?}", a, b, pa.cmp(&pb), a.cmp(&b)));
                macro_rules! binop {
                    ($name:expr, $checked:ident, $op:tt, $opa:tt) => {{
                        let want: Option<$N> = a.$checked(b);
                        let got = catch(|| <$N as From<$P>>::from(pa $op pb)).ok();
                        ctx.fact($name, got == want, || format!("{:#x} {} {:#x}: {:?} vs native {:?} (None = panic)", a, $name, b, got, want));
                        let got2 = catch(|| { let mut x = pa; x $opa pb; <$N as From<$P>>::from(x) }).ok();
                        ctx.fact(concat!($name, "_assign"), got2 == want, || format!("{:#x} {}= {:#x}: {:?} vs native {:?}", a, $name, b, got2, want));
                    }};
                }
                binop!("add", checked_add, +, +=);
                binop!("sub", checked_sub, -, -=);
                binop!("mul", checked_mul, *, *=);
                binop!("div", checked_div, /, /=);
                binop!("rem", checked_rem, %, %=);
            }
        }
        for name in ["eq_is_byte_eq", "cmp", "add", "sub", "mul", "div", "rem", "add_assign", "sub_assign", "mul_assign", "div_assign", "rem_assign"] {
            ctx.seen(name);
        }
    }};
}

macro_rules! signed_checks {
    ($ctx:expr, $P:ty, $N:ty, $vals:expr, $pairs_a:expr, $pairs_b:expr) => {{
        let ctx: &mut Ctx = $ctx;
        for &n in $vals.iter() {
            let n: $N = n;
            let p = <$P as From<$N>>::from(n);
            let want = n.checked_abs();
            let got = catch(|| <$N as From<$P>>::from(Signed::abs(&p))).ok();
            ctx.fact("abs", got == want, || format!("{}: {:?} vs {:?}", n, got, want));
            ctx.fact("signum", <$N as From<$P>>::from(Signed::signum(&p)) == n.signum(), || format!("{}", n));
            ctx.fact("is_positive", Signed::is_positive(&p) == n.is_positive() && Signed::is_negative(&p) == n.is_negative(), || format!("{}", n));
            let want = n.checked_neg();
            let got = catch(|| <$N as From<$P>>::from(-p)).ok();
            ctx.fact("neg", got == want, || format!("{}: {:?} vs {:?}", n, got, want));
        }
        for &a in $pairs_a.iter() {
            let a: $N = a;
            for &b in $pairs_b.iter() {
                let b: $N = b;
                let want = catch(|| Signed::abs_sub(&a, &b)).ok();
                let got = catch(|| <$N as From<$P>>::from(Signed::abs_sub(&<$P as From<$N>>::from(a), &<$P as From<$N>>::from(b)))).ok();
                ctx.fact("abs_sub", got == want, || format!("{} {}: {:?} vs {:?}", a, b, got, want));
            }
        }
        for name in ["abs", "signum", "is_positive", "neg", "abs_sub"] {
            ctx.seen(name);
        }
    }};
}

/// Arithmetic results: bit-equal, or both NaN (Rust does not specify which NaN payload an
/// operation on two NaNs produces, so the payload of a *computed* NaN is not compared; stored
/// values round-trip bit-exactly and that is checked separately).
macro_rules! same_float {
    ($a:expr, $b:expr) => {{
        let (a, b) = ($a, $b);
        a.to_bits() == b.to_bits() || (a.is_nan() && b.is_nan())
    }};
}

macro_rules! float_checks {
    ($ctx:expr, $P:ty, $N:ty, $U:ty, $be:expr, $bits:expr) => {{
        let ctx: &mut Ctx = $ctx;
        ctx.fact("align", <$P as FlatBase>::ALIGN == 1 && core::mem::align_of::<$P>() == 1, || "ALIGN".into());
        ctx.fact("size", <$P as FlatSized>::SIZE == core::mem::size_of::<$N>(), || "SIZE".into());
        ctx.fact("zero_one", <$N as From<$P>>::from(<$P as Zero>::zero()).to_bits() == (0.0 as $N).to_bits() && <$N as From<$P>>::from(<$P as One>::one()) == 1.0, || "zero/one".into());
        ctx.fact("min_max", <$N as From<$P>>::from(<$P as Bounded>::min_value()) == <$N>::MIN && <$N as From<$P>>::from(<$P as Bounded>::max_value()) == <$N>::MAX, || "min/max".into());
        ctx.fact("default", <$N as From<$P>>::from(<$P>::default()).to_bits() == 0, || "default".into());
        for s in ["0", "1.5", "-2.25", "nan", "inf", "x", "1e10"] {
            let a = <$P as Num>::from_str_radix(s, 10).ok().map(|p| <$N as From<$P>>::from(p).to_bits());
            let b = <$N as Num>::from_str_radix(s, 10).ok().map(|x| x.to_bits());
            ctx.fact("from_str_radix", a == b, || format!("{:?}", s));
        }
        for w in lattice64() {
            let a = <$P as FromPrimitive>::from_u64(w).map(|p| <$N as From<$P>>::from(p).to_bits());
            let b = <$N as FromPrimitive>::from_u64(w).map(|x| x.to_bits());
            ctx.fact("from_u64", a == b, || format!("{}", w));
            let a = <$P as FromPrimitive>::from_i64(w as i64).map(|p| <$N as From<$P>>::from(p).to_bits());
            let b = <$N as FromPrimitive>::from_i64(w as i64).map(|x| x.to_bits());
            ctx.fact("from_i64", a == b, || format!("{}", w as i64));
            let a = <$P as NumCast>::from(w).map(|p| <$N as From<$P>>::from(p).to_bits());
            let b = <$N as NumCast>::from(w).map(|x: $N| x.to_bits());
            ctx.fact("numcast", a == b, || format!("{}", w));
        }
        for &ub in $bits.iter() {
            let ub: $U = ub;
            let n = <$N>::from_bits(ub);
            let p = <$P as From<$N>>::from(n);
            let expect = if $be { ub.to_be_bytes() } else { ub.to_le_bytes() };
            ctx.fact("bytes", p.to_bytes() == expect && p.as_bytes() == &expect[..], || format!("{:#x}: stored {:02x?}", ub, p.to_bytes()));
            ctx.fact("roundtrip_bits", <$N as From<$P>>::from(p).to_bits() == ub, || format!("{:#x} -> {:#x}", ub, <$N as From<$P>>::from(p).to_bits()));
            ctx.fact("from_bytes", <$N as From<$P>>::from(<$P>::from_bytes(expect)).to_bits() == ub, || format!("{:#x}", ub));
            ctx.fact("is_zero", p.is_zero() == (n == 0.0), || format!("{:#x}", ub));
            ctx.fact("to_u64", p.to_u64() == n.to_u64() && p.to_i64() == n.to_i64() && p.to_usize() == n.to_usize(), || format!("{:#x}", ub));
            ctx.fact("neg", <$N as From<$P>>::from(-p).to_bits() == (-n).to_bits(), || format!("{:#x}", ub));
            ctx.fact("display", format!("{}", p) == format!("{}", n) && format!("{:?}", p) == format!("{:?}", n), || format!("{:#x}", ub));
            for &vb in $bits.iter() {
                let vb: $U = vb;
                let m = <$N>::from_bits(vb);
                let q = <$P as From<$N>>::from(m);
                ctx.fact("eq_is_byte_eq", (p == q) == (ub == vb), || format!("{:#x} {:#x}", ub, vb));
                ctx.fact("partial_cmp", p.partial_cmp(&q) == n.partial_cmp(&m), || format!("{:#x} {:#x}", ub, vb));
                ctx.fact("add", same_float!(<$N as From<$P>>::from(p + q), n + m), || format!("{:#x} {:#x}", ub, vb));
                ctx.fact("sub", same_float!(<$N as From<$P>>::from(p - q), n - m), || format!("{:#x} {:#x}", ub, vb));
                ctx.fact("mul", same_float!(<$N as From<$P>>::from(p * q), n * m), || format!("{:#x} {:#x}", ub, vb));
                ctx.fact("div", same_float!(<$N as From<$P>>::from(p / q), n / m), || format!("{:#x} {:#x}", ub, vb));
                ctx.fact("rem", same_float!(<$N as From<$P>>::from(p % q), n % m), || format!("{:#x} {:#x}", ub, vb));
                let mut x = p;
                x += q;
                let mut y = p;
                y -= q;
                let mut z = p;
                z *= q;
                let mut u = p;
                u /= q;
                let mut r = p;
                r %= q;
                ctx.fact("assign_ops", same_float!(<$N as From<$P>>::from(x), n + m) && same_float!(<$N as From<$P>>::from(y), n - m) && same_float!(<$N as From<$P>>::from(z), n * m) && same_float!(<$N as From<$P>>::from(u), n / m) && same_float!(<$N as From<$P>>::from(r), n % m), || format!("{:#x} {:#x}", ub, vb));
            }
        }
        for name in ["align", "size", "zero_one", "min_max", "default", "from_str_radix", "from_u64", "from_i64", "numcast", "bytes", "roundtrip_bits", "from_bytes", "is_zero", "to_u64", "neg", "display", "eq_is_byte_eq", "partial_cmp", "add", "sub", "mul", "div", "rem", "assign_ops"] {
            ctx.seen(name);
        }
    }};
}

fn f32_bits() -> Vec<u32> {
    let mut v = vec![0, 0x8000_0000, 0x3f80_0000, 0xbf80_0000, 0x7f80_0000, 0xff80_0000, 0x7fc0_0000, 0x7fc0_0001, 0xffc0_1234, 0x7f80_0001, 0x7fa0_0000, 0x0000_0001, 0x8000_0001, 0x007f_ffff, 0x0080_0000, 0x7f7f_ffff, 0xff7f_ffff, 0x0102_0304, 0x4049_0fdb, 0x3eaa_aaab, 0x4b80_0000, 0x5f00_0000, 0xdf00_0000, 0x4f80_0000];
    for s in 0..32 {
        v.push(1u32 << s);
        v.push((1u32 << s).wrapping_sub(1));
    }
    v.sort();
    v.dedup();
    v
}
fn f64_bits() -> Vec<u64> {
    let mut v = vec![0, 1u64 << 63, 0x3ff0_0000_0000_0000, 0xbff0_0000_0000_0000, 0x7ff0_0000_0000_0000, 0xfff0_0000_0000_0000, 0x7ff8_0000_0000_0000, 0x7ff8_0000_0000_0001, 0xfff8_0000_dead_beef, 0x7ff0_0000_0000_0001, 0x7ff4_0000_0000_0000, 1, (1u64 << 63) | 1, 0x000f_ffff_ffff_ffff, 0x0010_0000_0000_0000, 0x7fef_ffff_ffff_ffff, 0xffef_ffff_ffff_ffff, 0x0102_0304_0506_0708, 0x4009_21fb_5444_2d18, 0x43e0_0000_0000_0000, 0xc3e0_0000_0000_0000, 0x43f0_0000_0000_0000, 0x4330_0000_0000_0000];
    for s in 0..64 {
        v.push(1u64 << s);
        v.push((1u64 << s).wrapping_sub(1));
    }
    v.sort();
    v.dedup();
    v
}

fn main() {
    let args = report::parse_args();
    report::install(60);
    let thorough = args.thorough();
    let rep = Report::new("portable", &args.tier);
    let lat = lattice64();
    let l16: Vec<u16> = {
        let mut v: Vec<u16> = lat.iter().map(|x| *x as u16).collect();
        v.sort();
        v.dedup();
        v
    };
    let all16: Vec<u16> = (0..=u16::MAX).collect();
    let l32: Vec<u32> = {
        let mut v: Vec<u32> = lat.iter().map(|x| *x as u32).collect();
        v.sort();
        v.dedup();
        v
    };
    let l64: Vec<u64> = lat.clone();
    let mut jobs: Vec<Box<dyn FnOnce() -> PropAcc + Send>> = vec![];
    macro_rules! job_int {
        ($name:expr, $P:ty, $N:ty, $be:expr, $signed:expr, $vals:expr, $pa:expr, $pb:expr) => {{
            let vals: Vec<$N> = $vals.iter().map(|x| *x as $N).collect();
            let pa: Vec<$N> = $pa.iter().map(|x| *x as $N).collect();
            let pb: Vec<$N> = $pb.iter().map(|x| *x as $N).collect();
            jobs.push(Box::new(move || {
                let mut acc = PropAcc::default();
                report::journal(concat!("portable ", $name).as_bytes());
                {
                    let mut ctx = Ctx { acc: &mut acc, ty: $name };
                    int_checks!(&mut ctx, $P, $N, $be, $signed, vals, pa, pb);
                }
                acc.sample(json!({"type": $name, "unary_values": vals.len(), "binary_pairs": pa.len() * pb.len(), "example": format!("{:#x}", vals[vals.len() / 2])}));
                acc
            }));
        }};
    }
    macro_rules! job_sint {
        ($name:expr, $P:ty, $N:ty, $vals:expr, $pa:expr, $pb:expr) => {{
            let vals: Vec<$N> = $vals.iter().map(|x| *x as $N).collect();
            let pa: Vec<$N> = $pa.iter().map(|x| *x as $N).collect();
            let pb: Vec<$N> = $pb.iter().map(|x| *x as $N).collect();
            jobs.push(Box::new(move || {
                let mut acc = PropAcc::default();
                report::journal(concat!("portable signed ", $name).as_bytes());
                {
                    let mut ctx = Ctx { acc: &mut acc, ty: $name };
                    signed_checks!(&mut ctx, $P, $N, vals, pa, pb);
                }
                acc
            }));
        }};
    }
    let pa16: &Vec<u16> = if thorough { &all16 } else { &l16 };
    // thorough: all 65536 x a 48-value boundary subset (plus the full lattice x lattice of the quick tier)
    let b48: Vec<u16> = {
        let step = (l16.len() / 44).max(1);
        let mut v: Vec<u16> = l16.iter().step_by(step).cloned().collect();
        v.extend([0u16, 1, 0x7fff, 0x8000, 0xffff, 0xfffe]);
        v.sort();
        v.dedup();
        v
    };
    let pb16: &Vec<u16> = if thorough { &b48 } else { &l16 };
    job_int!("le::U16", le::U16, u16, false, false, all16, pa16, pb16);
    job_int!("be::U16", be::U16, u16, true, false, all16, pa16, pb16);
    job_int!("le::I16", le::I16, i16, false, true, all16, pa16, pb16);
    job_int!("be::I16", be::I16, i16, true, true, all16, pa16, pb16);
    job_int!("le::U32", le::U32, u32, false, false, l32, l32, l32);
    job_int!("be::U32", be::U32, u32, true, false, l32, l32, l32);
    job_int!("le::I32", le::I32, i32, false, true, l32, l32, l32);
    job_int!("be::I32", be::I32, i32, true, true, l32, l32, l32);
    job_int!("le::U64", le::U64, u64, false, false, l64, l64, l64);
    job_int!("be::U64", be::U64, u64, true, false, l64, l64, l64);
    job_int!("le::I64", le::I64, i64, false, true, l64, l64, l64);
    job_int!("be::I64", be::I64, i64, true, true, l64, l64, l64);
    job_sint!("le::I16", le::I16, i16, all16, l16, l16);
    job_sint!("be::I16", be::I16, i16, all16, l16, l16);
    job_sint!("le::I32", le::I32, i32, l32, l32, l32);
    job_sint!("be::I32", be::I32, i32, l32, l32, l32);
    job_sint!("le::I64", le::I64, i64, l64, l64, l64);
    job_sint!("be::I64", be::I64, i64, l64, l64, l64);
    macro_rules! job_float {
        ($name:expr, $P:ty, $N:ty, $U:ty, $be:expr, $bits:expr) => {{
            let bits: Vec<$U> = $bits;
            jobs.push(Box::new(move || {
                let mut acc = PropAcc::default();
                report::journal(concat!("portable float ", $name).as_bytes());
                {
                    let mut ctx = Ctx { acc: &mut acc, ty: $name };
                    float_checks!(&mut ctx, $P, $N, $U, $be, bits);
                }
                acc.sample(json!({"type": $name, "bit_patterns": bits.len(), "pairs": bits.len() * bits.len(), "example_nan_payload": format!("{:#x}", bits[bits.len() - 2])}));
                acc
            }));
        }};
    }
    job_float!("le::F32", le::F32, f32, u32, false, f32_bits());
    job_float!("be::F32", be::F32, f32, u32, true, f32_bits());
    job_float!("le::F64", le::F64, f64, u64, false, f64_bits());
    job_float!("be::F64", be::F64, f64, u64, true, f64_bits());
    // Bool
    jobs.push(Box::new(|| {
        let mut acc = PropAcc::default();
        {
            let mut ctx = Ctx { acc: &mut acc, ty: "Bool" };
            ctx.fact("align_size", <Bool as FlatBase>::ALIGN == 1 && <Bool as FlatSized>::SIZE == 1, || "ALIGN/SIZE".into());
            for b in 0..=255u8 {
                let ok = <Bool as FlatValidate>::validate(&[b]).is_ok();
                ctx.fact("validate", ok == (b <= 1), || format!("byte {}", b));
                if b <= 1 {
                    let arr = [b];
                    let v = Bool::from_bytes(&arr).unwrap();
                    ctx.fact("reads", bool::from(*v) == (b == 1), || format!("byte {}", b));
                }
            }
            for x in [false, true] {
                let p = Bool::from(x);
                ctx.fact("stores", p.as_bytes() == [x as u8] && bool::from(p) == x, || format!("{}", x));
                ctx.fact("not", bool::from(!p) == !x, || format!("{}", x));
                for y in [false, true] {
                    let q = Bool::from(y);
                    ctx.fact("and", bool::from(p & q) == (x & y), || format!("{} {}", x, y));
                    ctx.fact("or", bool::from(p | q) == (x | y), || format!("{} {}", x, y));
                    ctx.fact("xor", bool::from(p ^ q) == (x ^ y), || format!("{} {}", x, y));
                    let mut a = p;
                    a &= q;
                    let mut b = p;
                    b |= q;
                    let mut c = p;
                    c ^= q;
                    ctx.fact("assign_ops", bool::from(a) == (x & y) && bool::from(b) == (x | y) && bool::from(c) == (x ^ y), || format!("{} {}", x, y));
                    ctx.fact("eq_ord", (p == q) == (x == y) && p.cmp(&q) == x.cmp(&y), || format!("{} {}", x, y));
                }
            }
            ctx.fact("default", !bool::from(Bool::default()), || "default".into());
            for name in ["align_size", "validate", "reads", "stores", "not", "and", "or", "xor", "assign_ops", "eq_ord", "default"] {
                ctx.seen(name);
            }
        }
        acc.sample(json!({"type": "Bool", "bytes_validated": 256, "operand_pairs": 4}));
        acc
    }));
    let jobs = std::sync::Mutex::new(jobs);
    std::thread::scope(|s| {
        for _ in 0..args.threads.max(1) {
            s.spawn(|| loop {
                let j = jobs.lock().unwrap().pop();
                match j {
                    Some(f) => {
                        let mut a = f();
                        a.exhaustive = true;
                        rep.merge("C16", a);
                        report::journal_idle();
                    }
                    None => break,
                }
            });
        }
    });
    rep.write(&args.out);
    let j = rep.to_json();
    let p = &j["props"]["C16"];
    println!("engine=portable prop=C16 evaluations={} distinct={} violation_classes={}", p["evaluations"], p["distinct_nontrivial"], p["violations"].as_array().unwrap().len());
    for x in p["violations"].as_array().unwrap().iter().take(40) {
        println!("  VCLASS {} x{} :: {}", x["key"].as_str().unwrap(), x["count"], x["detail"].as_str().unwrap());
    }
    std::process::exit(0);
}
