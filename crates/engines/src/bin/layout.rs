//! C04: computed layout == compiler layout == reference C rule, for every catalog shape and, for
//! unsized ones, every buffer length from MIN_SIZE upwards (each single length).

use engines::*;
use harness::guard::Arena;
use harness::report::{catch, hex, journal, Args};
use harness::ShapeDyn;
use refmodel::ops::Kind;
use refmodel::values::{enum_values, Limits};
use refmodel::{c_offsets, encode, floor, Desc};
use serde_json::json;

struct Layout;

fn expected_offsets(d: &Desc, v: &refmodel::Value) -> Option<Vec<usize>> {
    match (d, v) {
        (Desc::Struct { fields, .. }, _) => Some(c_offsets(fields).0),
        (Desc::Enum { variants, .. }, refmodel::Value::Enum(t, _)) => {
            let off = d.enum_data_offset();
            Some(c_offsets(&variants[*t]).0.into_iter().map(|o| o + off).collect())
        }
        (Desc::Vec { .. }, _) | (Desc::Str { .. }, _) => Some(vec![d.data_offset()]),
        _ => None,
    }
}

impl Engine for Layout {
    const NAME: &'static str = "layout";
    fn run(&self, s: &'static dyn ShapeDyn, args: &Args) -> Accs {
        let id = s.id();
        let mut m = Accs::new();
        let a = acc(&mut m, "C04");
        let d = s.desc();
        let (t_align, t_min) = (s.lib_align(), s.lib_min_size());
        let fam = family(id);
        let v = |a: &mut harness::report::PropAcc, what: &str, detail: String, extra: serde_json::Value| {
            a.violate(format!("layout/{}/{}", what, fam), format!("{}: {}", id, detail), json!({"engine": "layout", "shape": id, "what": what, "case": extra}));
        };
        // ---- static facts
        a.evaluations += 1;
        if t_align != d.align() {
            v(a, "align", format!("ALIGN {} != reference {}", t_align, d.align()), json!({}));
        }
        if let Some((fsize, csize, calign)) = s.sized_info() {
            if !(fsize == csize && csize == d.size()) {
                v(a, "size", format!("SIZE {} / size_of {} / reference {}", fsize, csize, d.size()), json!({}));
            }
            if !(calign == t_align) {
                v(a, "align", format!("align_of {} != ALIGN {}", calign, t_align), json!({}));
            }
            if t_min != fsize {
                v(a, "min_size", format!("MIN_SIZE {} != SIZE {}", t_min, fsize), json!({}));
            }
        } else if t_min != d.min_size() {
            v(a, "min_size", format!("MIN_SIZE {} != reference {}", t_min, d.min_size()), json!({}));
        }
        let ex = s.extra();
        if let Some(o) = ex.data_offset {
            if o != d.enum_data_offset() {
                v(a, "data_offset", format!("DATA_OFFSET {} != reference {}", o, d.enum_data_offset()), json!({}));
            }
        }
        if let (Some(o), Desc::Struct { fields, .. }) = (ex.last_field_offset, &d) {
            let r = *c_offsets(fields).0.last().unwrap();
            if o != r {
                v(a, "last_field_offset", format!("LAST_FIELD_OFFSET {} != reference {}", o, r), json!({}));
            }
        }
        if let Desc::Enum { variants, sized: false, .. } = &d {
            let r: Vec<usize> = variants.iter().map(|f| Desc::fields_min(f)).collect();
            if ex.data_min_sizes != r {
                v(a, "data_min_sizes", format!("DATA_MIN_SIZES {:?} != reference {:?}", ex.data_min_sizes, r), json!({}));
            }
        }
        a.distinct.insert(format!("{}:static", id));
        // ---- mapped values at every length
        let align = d.align();
        let min = d.min_size();
        let span = if d.is_sized() { 2 } else { 3 * align + 24 };
        let lim = if args.thorough() { Limits::thorough() } else { Limits::quick() };
        let mut arena = Arena::new(min + span + 64);
        let lo = min.saturating_sub(align.max(2));
        for n in lo..=min + span {
            let vals = enum_values(&d, n, &lim);
            // gate: everything below MIN_SIZE is refused, MIN_SIZE is accepted
            if n < min {
                let img = match enum_values(&d, min, &lim).first() { Some(v0) => encode(&d, v0, min, 0), None => Err(refmodel::EncodeErr::NoRoom) };
                let mut slot = arena.place(n, 0, 0);
                if let Ok(img) = &img {
                    slot.bytes_mut().copy_from_slice(&img.bytes[..n]);
                }
                journal(format!("layout {} gate n={}", id, n).as_bytes());
                a.evaluations += 1;
                let r = catch(|| s.validate(slot.bytes()).is_ok());
                match r {
                    Ok(false) => {}
                    Ok(true) => v(a, "gate", format!("validate accepts {} bytes < MIN_SIZE {}", n, min), json!({"n": n, "bytes": hex(slot.bytes())})),
                    Err(p) => v(a, "gate_panic", format!("validate panics on {} bytes: {}", n, p), json!({"n": n})),
                }
                if let Some(r) = catch(|| s.default_in_place(slot.bytes_mut()).map(|r| r.is_ok())).ok().flatten() {
                    if r {
                        v(a, "gate", format!("default_in_place accepts {} bytes < MIN_SIZE {}", n, min), json!({"n": n}));
                    }
                }
                continue;
            }
            for (vi, val) in vals.iter().enumerate() {
                let exp_offs = expected_offsets(&d, val);
                for way in 0..3 {
                    // 0: new_in_place(value)  1: from_bytes(reference image)  2: default_in_place (vi == 0 only)
                    if way == 2 && vi != 0 {
                        continue;
                    }
                    let mut slot = arena.place(n, 0, 0x5A);
                    let base = slot.addr();
                    if way == 1 {
                        let img = encode(&d, val, n, 0x5A).expect("enumerated value fits");
                        slot.bytes_mut().copy_from_slice(&img.bytes);
                    }
                    journal(format!("layout {} n={} vi={} way={}", id, n, vi, way).as_bytes());
                    a.evaluations += 1;
                    let res = catch(|| -> Result<Option<String>, String> {
                        let x = match way {
                            0 => match s.new_in_place(slot_bytes(&mut slot), val, Kind::Iter) {
                                Ok(x) => x,
                                Err(e) => return Err(format!("new_in_place refused a fitting value: {:?}", e)),
                            },
                            1 => match s.from_bytes(slot_bytes(&mut slot)) {
                                Ok(x) => x,
                                Err(e) => return Err(format!("from_bytes refused the reference image: {:?}", e)),
                            },
                            _ => match s.default_in_place(slot_bytes(&mut slot)) {
                                None => return Ok(None),
                                Some(Ok(x)) => x,
                                Some(Err(e)) => return Err(format!("default_in_place refused {} >= MIN_SIZE bytes: {:?}", n, e)),
                            },
                        };
                        let sv = x.size_of_val;
                        let av = x.align_of_val;
                        if sv > n {
                            return Err(format!("size_of_val {} > slice length {}", sv, n));
                        }
                        if !d.is_sized() && sv > floor(n, align) {
                            return Err(format!("size_of_val {} > floor(n, ALIGN) {}", sv, floor(n, align)));
                        }
                        if av != d.align() {
                            return Err(format!("align_of_val {} != reference {}", av, d.align()));
                        }
                        if x.as_bytes_addr != base || x.as_bytes_len > n {
                            return Err(format!("as_bytes() = +{}..+{} not inside 0..{}", x.as_bytes_addr as isize - base as isize, x.as_bytes_len, n));
                        }
                        // the library's own statement of the value's extent (`ptr_to_bytes`, behind `as_bytes`) is the compiler's
                        if x.as_bytes_len != sv {
                            return Err(format!("as_bytes().len() {} != size_of_val {}", x.as_bytes_len, sv));
                        }
                        if x.self_addr != base {
                            return Err("value does not start at the slice start".into());
                        }
                        if way != 2 {
                            if let Some(eo) = &exp_offs {
                                let pr = &x.probes;
                                if pr.len() != eo.len() {
                                    return Err(format!("{} field probes, reference has {}", pr.len(), eo.len()));
                                }
                                for (i, p) in pr.iter().enumerate() {
                                    if p.addr != base + eo[i] {
                                        return Err(format!("field {} at +{} but reference offset {}", i, p.addr as isize - base as isize, eo[i]));
                                    }
                                    if p.addr + p.size > base + n {
                                        return Err(format!("field {} (+{}, {} bytes) leaves the slice of {}", i, eo[i], p.size, n));
                                    }
                                }
                            }
                        }
                        Ok(Some(format!("sv={}", sv)))
                    });
                    match res {
                        Ok(Ok(Some(sig))) => {
                            a.distinct.insert(format!("{}:{}:{}", id, n % (2 * align.max(1)), sig));
                            if a.samples.len() < 3 && n > min {
                                a.sample(json!({"shape": id, "n": n, "value": format!("{:?}", val), "way": way, "observed": sig}));
                            }
                        }
                        Ok(Ok(None)) => {}
                        Ok(Err(msg)) => {
                            let what = msg.split(|c: char| c.is_ascii_digit()).next().unwrap_or("").trim().replace(' ', "_");
                            v(a, &format!("mapped/{}", what), format!("n={} value={:?} way={}: {}", n, val, way, msg), json!({"n": n, "vi": vi, "way": way}))
                        }
                        Err(p) => v(a, "panic", format!("n={} value={:?} way={}: panic {}", n, val, way, p), json!({"n": n, "vi": vi, "way": way})),
                    }
                    if let Err(e) = slot.check() {
                        v(a, "canary", format!("n={} way={}: {}", n, way, e), json!({"n": n, "vi": vi, "way": way}));
                    }
                }
            }
        }
        a.exhaustive = true;
        m
    }

    /// A layout case is re-executed by sweeping its (small) shape again: the recorded fact must show up again.
    fn replay(&self, s: &'static dyn ShapeDyn, case: &serde_json::Value) -> bool {
        let args = Args { tier: "thorough".into(), out: "/dev/null".into(), props: vec!["C04".into()], replay: None, threads: 1, only: None, rest: vec![] };
        let accs = self.run(s, &args);
        let want = case["what"].as_str().unwrap_or("");
        let mut hit = false;
        for a in accs.values() {
            for v in a.violations.values() {
                println!("{} :: {}", v.key, v.detail);
                if want.is_empty() || v.key.contains(want) {
                    hit = true;
                }
            }
        }
        hit
    }
}

fn slot_bytes<'a, 'b>(s: &'a mut harness::guard::Slot<'b>) -> &'a mut [u8] {
    s.bytes_mut()
}

fn main() {
    run_engine(Layout)
}
