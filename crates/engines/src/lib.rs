//! Common runner for the catalog engines (E1 sweeps and E2 history searches).

use harness::report::{self, Args, PropAcc, Report};
use harness::ShapeDyn;
use std::collections::BTreeMap;
use std::sync::atomic::{AtomicUsize, Ordering};

pub type Accs = BTreeMap<&'static str, PropAcc>;

pub trait Engine: Sync + Send + 'static {
    const NAME: &'static str;
    fn run(&self, s: &'static dyn ShapeDyn, args: &Args) -> Accs;
    /// re-execute one recorded case, print what happens; returns true when a violation reproduces
    fn replay(&self, _s: &'static dyn ShapeDyn, _case: &serde_json::Value) -> bool {
        false
    }
    /// work that is not per shape (run once, before the shapes)
    fn global(&self, _args: &Args) -> Accs {
        Accs::new()
    }
    fn replay_global(&self, _case: &serde_json::Value) -> bool {
        false
    }
    /// cost hint for load balancing (bigger first)
    fn cost(&self, _s: &dyn ShapeDyn) -> usize {
        1
    }
}

pub fn acc<'a>(m: &'a mut Accs, p: &'static str) -> &'a mut PropAcc {
    m.entry(p).or_default()
}

pub fn all_shapes(thorough: bool) -> Vec<Box<dyn ShapeDyn>> {
    let mut v = shapes::quick_shapes();
    if thorough {
        v.extend(shapes::thorough_extra_shapes());
    }
    v
}

pub fn run_engine<E: Engine>(e: E) -> ! {
    let args = report::parse_args();
    assert!(cfg!(target_endian = "little") && core::mem::size_of::<usize>() == 8, "host assumptions");
    report::install(if args.replay.is_some() { 0 } else { 20 });
    if args.thorough() && !shapes::HAS_THOROUGH {
        eprintln!("MACHINERY: thorough tier needs the engines built with --features thorough");
        std::process::exit(2);
    }
    let mut shapes: Vec<&'static dyn ShapeDyn> = all_shapes(args.thorough() || (args.replay.is_some() && shapes::HAS_THOROUGH)).into_iter().map(|b| &*Box::leak(b)).collect();
    if let Some(path) = &args.replay {
        let txt = std::fs::read_to_string(path).expect("read replay file");
        let j: serde_json::Value = serde_json::from_str(&txt).expect("replay json");
        let case = if j.get("replay").is_some() { j["replay"].clone() } else { j.clone() };
        if case.get("global").is_some() {
            let a = e.replay_global(&case);
            let b = e.replay_global(&case);
            println!("replay: reproduced={} (second run: {})", a, b);
            std::process::exit(if a != b { 2 } else if a { 1 } else { 0 });
        }
        let shape = case["shape"].as_str().expect("replay.shape").to_string();
        for s in &shapes {
            if s.id() == shape {
                let a = e.replay(*s, &case);
                let b = e.replay(*s, &case);
                println!("replay: reproduced={} (second run: {})", a, b);
                if a != b {
                    println!("replay: NON-DETERMINISTIC");
                    std::process::exit(2);
                }
                std::process::exit(if a { 1 } else { 0 });
            }
        }
        println!("replay: unknown shape {} (thorough-only shapes need the thorough build)", shape);
        std::process::exit(2);
    }
    if let Some(o) = &args.only {
        shapes.retain(|s| s.id().contains(o.as_str()));
    }
    shapes.sort_by_key(|s| std::cmp::Reverse(e.cost(*s)));
    let rep = Report::new(E::NAME, &args.tier);
    let next = AtomicUsize::new(0);
    let jobs = &shapes;
    let n_threads = args.threads.max(1).min(jobs.len().max(1));
    let e = &e;
    if args.only.is_none() {
        for (p, a) in e.global(&args) {
            rep.merge(p, a);
        }
    }
    std::thread::scope(|s| {
        for _ in 0..n_threads {
            s.spawn(|| loop {
                let i = next.fetch_add(1, Ordering::Relaxed);
                if i >= jobs.len() {
                    report::journal_idle();
                    break;
                }
                let accs = e.run(jobs[i], &args);
                report::journal_idle();
                for (p, a) in accs {
                    rep.merge(p, a);
                }
            });
        }
    });
    rep.set_meta("shapes", serde_json::json!(jobs.len()));
    rep.write(&args.out);
    let j = rep.to_json();
    let mut nv = 0;
    for (p, v) in j["props"].as_object().unwrap() {
        let k = v["violations"].as_array().unwrap().len();
        nv += k;
        println!("engine={} prop={} evaluations={} distinct={} violation_classes={}", E::NAME, p, v["evaluations"], v["distinct_nontrivial"], k);
        for x in v["violations"].as_array().unwrap().iter().take(60) {
            println!("  VCLASS {} x{} :: {}", x["key"].as_str().unwrap(), x["count"], x["detail"].as_str().unwrap());
        }
    }
    println!("engine={} done shapes={} wall={:.1}s violation_classes={}", E::NAME, jobs.len(), rep.start.elapsed().as_secs_f64(), nv);
    std::process::exit(0);
}

/// Family of a shape id: the outermost constructor (used in violation keys so that findings are
/// matched per family, not per shape).
pub fn family(id: &str) -> &str {
    id.split('(').next().unwrap_or(id)
}
