//! Common runner for the catalog engines (E1 sweeps and E2 history searches).

use harness::report::{self, Args, PropAcc, Report};
use harness::{Node, Visitor};
use std::collections::BTreeMap;
use std::sync::atomic::{AtomicUsize, Ordering};
use std::sync::Arc;

pub type Accs = BTreeMap<&'static str, PropAcc>;

pub trait Engine: Sync + Send + 'static {
    const NAME: &'static str;
    fn run<T: Node + ?Sized + 'static>(&self, id: &'static str, args: &Args) -> Accs;
    /// re-execute one recorded case, print what happens; returns true when the violation reproduces
    fn replay<T: Node + ?Sized + 'static>(&self, _id: &'static str, _case: &serde_json::Value) -> bool {
        false
    }
}

type JobFn = Box<dyn Fn(&Args) -> Accs + Send + Sync>;
type ReplayFn = Box<dyn Fn(&serde_json::Value) -> bool + Send + Sync>;

struct Collector<E: Engine> {
    e: Arc<E>,
    jobs: Vec<(&'static str, JobFn, ReplayFn)>,
}
impl<E: Engine> Visitor for Collector<E> {
    fn visit<T: Node + ?Sized + 'static>(&mut self, id: &'static str) {
        let e = self.e.clone();
        let e2 = self.e.clone();
        self.jobs.push((id, Box::new(move |a| e.run::<T>(id, a)), Box::new(move |c| e2.replay::<T>(id, c))));
    }
}

pub fn acc<'a>(m: &'a mut Accs, p: &'static str) -> &'a mut PropAcc {
    m.entry(p).or_default()
}

pub fn run_engine<E: Engine>(e: E) -> ! {
    let args = report::parse_args();
    assert!(cfg!(target_endian = "little") && core::mem::size_of::<usize>() == 8, "host assumptions");
    report::install(if args.replay.is_some() { 0 } else { 20 });
    let mut c = Collector { e: Arc::new(e), jobs: vec![] };
    shapes::visit_quick(&mut c);
    if args.thorough() || args.replay.is_some() {
        shapes::visit_thorough_extra(&mut c);
    }
    if let Some(path) = &args.replay {
        let txt = std::fs::read_to_string(path).expect("read replay file");
        let j: serde_json::Value = serde_json::from_str(&txt).expect("replay json");
        let case = if j.get("replay").is_some() { j["replay"].clone() } else { j.clone() };
        let shape = case["shape"].as_str().expect("replay.shape").to_string();
        for (id, _, rf) in &c.jobs {
            if *id == shape {
                let a = rf(&case);
                let b = rf(&case);
                println!("replay: reproduced={} (second run: {})", a, b);
                if a != b {
                    println!("replay: NON-DETERMINISTIC");
                    std::process::exit(2);
                }
                std::process::exit(if a { 1 } else { 0 });
            }
        }
        println!("replay: unknown shape {}", shape);
        std::process::exit(2);
    }
    if let Some(o) = &args.only {
        c.jobs.retain(|(id, _, _)| id.contains(o.as_str()));
    }
    let rep = Report::new(E::NAME, &args.tier);
    let next = AtomicUsize::new(0);
    let jobs = &c.jobs;
    let n_threads = args.threads.max(1).min(jobs.len().max(1));
    std::thread::scope(|s| {
        for _ in 0..n_threads {
            s.spawn(|| loop {
                let i = next.fetch_add(1, Ordering::Relaxed);
                if i >= jobs.len() {
                    report::journal_idle();
                    break;
                }
                let (_, f, _) = &jobs[i];
                let accs = f(&args);
                report::journal_idle();
                for (p, a) in accs {
                    rep.merge(p, a);
                }
            });
        }
    });
    rep.set_meta("shapes", serde_json::json!(jobs.len()));
    rep.set_meta("catalog_quick", serde_json::json!(shapes::N_QUICK));
    rep.set_meta("catalog_thorough", serde_json::json!(shapes::N_THOROUGH));
    rep.write(&args.out);
    let j = rep.to_json();
    let mut nv = 0;
    for (p, v) in j["props"].as_object().unwrap() {
        let k = v["violations"].as_array().unwrap().len();
        nv += k;
        println!("engine={} prop={} evaluations={} distinct={} violation_classes={}", E::NAME, p, v["evaluations"], v["distinct_nontrivial"], k);
        for x in v["violations"].as_array().unwrap().iter().take(40) {
            println!("  VCLASS {} x{} :: {}", x["key"].as_str().unwrap(), x["count"], x["detail"].as_str().unwrap());
        }
    }
    println!("engine={} done shapes={} wall={:.1}s violation_classes={}", E::NAME, jobs.len(), rep.start.elapsed().as_secs_f64(), nv);
    std::process::exit(0);
}

/// Family of a shape id: the outermost constructor (used in violation keys so that findings are
/// matched per family, not per shape).
pub fn family(id: &str) -> &str {
    id.split('(').next().unwrap_or(id)
}
