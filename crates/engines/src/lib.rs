//! Common runner for the catalog engines (E1 sweeps and E2 history searches).

use harness::report::{self, Args, PropAcc, Report};
use harness::ShapeDyn;
use std::collections::BTreeMap;
use std::sync::atomic::{AtomicUsize, Ordering};

pub type Accs = BTreeMap<&'static str, PropAcc>;

pub trait Engine: Sync + Send + 'static {
    const NAME: &'static str;
    fn run(&self, s: &'static dyn ShapeDyn, args: &Args) -> Accs;
    /// re-execute one recorded case, print what happens; returns true when a violation reproduces
    fn replay(&self, _s: &'static dyn ShapeDyn, _case: &serde_json::Value) -> bool {
        false
    }
    /// work that is not per shape (run once, before the shapes)
    fn global(&self, _args: &Args) -> Accs {
        Accs::new()
    }
    fn replay_global(&self, _case: &serde_json::Value) -> bool {
        false
    }
    /// cost hint for load balancing (bigger first)
    fn cost(&self, _s: &dyn ShapeDyn) -> usize {
        1
    }
}

pub fn acc<'a>(m: &'a mut Accs, p: &'static str) -> &'a mut PropAcc {
    m.entry(p).or_default()
}

pub fn all_shapes(thorough: bool) -> Vec<Box<dyn ShapeDyn>> {
    let mut v = shapes::quick_shapes();
    if thorough {
        v.extend(shapes::thorough_extra_shapes());
    }
    v
}

pub fn run_engine<E: Engine>(e: E) -> ! {
    let args = report::parse_args();
    assert!(cfg!(target_endian = "little") && core::mem::size_of::<usize>() == 8, "host assumptions");
    report::install(if args.replay.is_some() { 0 } else { 20 });
    if args.thorough() && !shapes::HAS_THOROUGH {
        eprintln!("MACHINERY: thorough tier needs the engines built with --features thorough");
        std::process::exit(2);
    }
    let mut shapes: Vec<&'static dyn ShapeDyn> = all_shapes(args.thorough() || (args.replay.is_some() && shapes::HAS_THOROUGH)).into_iter().map(|b| &*Box::leak(b)).collect();
    if let Some(path) = &args.replay {
        let txt = std::fs::read_to_string(path).expect("read replay file");
        let j: serde_json::Value = serde_json::from_str(&txt).expect("replay json");
        let case = if j.get("replay").is_some() { j["replay"].clone() } else { j.clone() };
        if case.get("global").is_some() {
            let a = e.replay_global(&case);
            let b = e.replay_global(&case);
            println!("replay: reproduced={} (second run: {})", a, b);
            std::process::exit(if a != b { 2 } else if a { 1 } else { 0 });
        }
        let shape = case["shape"].as_str().expect("replay.shape").to_string();
        for s in &shapes {
            if s.id() == shape {
                let a = e.replay(*s, &case);
                let b = e.replay(*s, &case);
                println!("replay: reproduced={} (second run: {})", a, b);
                if a != b {
                    println!("replay: NON-DETERMINISTIC");
                    std::process::exit(2);
                }
                std::process::exit(if a { 1 } else { 0 });
            }
        }
        println!("replay: unknown shape {} (thorough-only shapes need the thorough build)", shape);
        std::process::exit(2);
    }
    if let Some(o) = &args.only {
        shapes.retain(|s| s.id().contains(o.as_str()));
    }
    // the systematic family of field-class pairs / triples is a layout matter: swept by layout and emplace only
    if matches!(E::NAME, "hist" | "decode") {
        shapes.retain(|s| !s.id().ends_with(";sys"));
    }
    shapes.sort_by_key(|s| std::cmp::Reverse(e.cost(*s)));
    let rep = Report::new(E::NAME, &args.tier);
    let next = AtomicUsize::new(0);
    let jobs = &shapes;
    let n_threads = args.threads.max(1).min(jobs.len().max(1));
    let e = &e;
    if args.only.is_none() {
        for (p, a) in e.global(&args) {
            rep.merge(p, a);
        }
    }
    std::thread::scope(|s| {
        for _ in 0..n_threads {
            s.spawn(|| loop {
                let i = next.fetch_add(1, Ordering::Relaxed);
                if i >= jobs.len() {
                    report::journal_idle();
                    break;
                }
                let accs = e.run(jobs[i], &args);
                report::journal_idle();
                for (p, a) in accs {
                    rep.merge(p, a);
                }
            });
        }
    });
    rep.set_meta("shapes", serde_json::json!(jobs.len()));
    rep.write(&args.out);
    let j = rep.to_json();
    let mut nv = 0;
    for (p, v) in j["props"].as_object().unwrap() {
        let k = v["violations"].as_array().unwrap().len();
        nv += k;
        println!("engine={} prop={} evaluations={} distinct={} violation_classes={}", E::NAME, p, v["evaluations"], v["distinct_nontrivial"], k);
        for x in v["violations"].as_array().unwrap().iter().take(60) {
            println!("  VCLASS {} x{} :: {}", x["key"].as_str().unwrap(), x["count"], x["detail"].as_str().unwrap());
        }
    }
    println!("engine={} done shapes={} wall={:.1}s violation_classes={}", E::NAME, jobs.len(), rep.start.elapsed().as_secs_f64(), nv);
    std::process::exit(0);
}

/// Family of a shape id: the outermost constructor (used in violation keys so that findings are
/// matched per family, not per shape).
pub fn family(id: &str) -> &str {
    id.split('(').next().unwrap_or(id)
}

// ------------------------------------------------------------------------------------------
// scale cases: byte images far beyond the small scope, each re-creatable from its label
// ------------------------------------------------------------------------------------------

/// Buffer lengths around every power of two up to the 16-bit boundary.
pub fn buffer_ladder(thorough: bool) -> Vec<usize> {
    let mut v: Vec<usize> = vec![100, 127, 128, 129, 130, 254, 255, 256, 257, 258, 259, 260, 264, 300, 511, 512, 513, 520];
    if thorough {
        v.extend([1023, 1024, 1025, 4095, 4096, 4097, 32767, 32768, 32769, 65534, 65535, 65536, 65537, 65538, 65539, 65540, 65544, 65552, 70000]);
    }
    v
}

pub struct ScaleCase {
    pub label: String,
    pub bytes: Vec<u8>,
    /// the content the image was built from (None for constant fills)
    pub value: Option<refmodel::Value>,
    /// number of leading bytes that carry the value (reference extent)
    pub extent: usize,
    pub mask: Vec<bool>,
}

/// Images of small values in large buffers, of large values (container sizes from the scale ladder) in exact
/// and roomy buffers, and constant fills, for one shape.
pub fn scale_cases(d: &refmodel::Desc, thorough: bool) -> Vec<ScaleCase> {
    use refmodel::values::{enum_values, scale_ladder, scaled_value, Limits};
    let mut out = vec![];
    let a = d.align();
    let small = {
        let avail = d.min_size() + 3 * a + 12;
        let vals = enum_values(d, avail, &Limits::quick());
        let mut picks = vec![];
        if let Some(v) = vals.first() {
            picks.push(v.clone());
        }
        if let Some(v) = vals.last() {
            if vals.len() > 1 {
                picks.push(v.clone());
            }
        }
        picks
    };
    for b in buffer_ladder(thorough) {
        for (vi, v) in small.iter().enumerate() {
            for fill in [0xEEu8, 0x00] {
                if let Ok(img) = refmodel::encode(d, v, b, fill) {
                    out.push(ScaleCase { label: format!("small:B={}:vi={}:fill={:02x}", b, vi, fill), bytes: img.bytes, value: Some(v.clone()), extent: img.extent, mask: img.mask });
                }
            }
        }
        for byte in [0x00u8, 0x01, 0xFF] {
            out.push(ScaleCase { label: format!("const:B={}:byte={:02x}", b, byte), bytes: vec![byte; b], value: None, extent: 0, mask: vec![] });
        }
    }
    if d.is_sized() {
        return out;
    }
    let flexy = format!("{:?}", d).contains("Flex");
    for nn in scale_ladder(thorough) {
        if flexy && nn > 4100 {
            continue;
        }
        let v = match scaled_value(d, nn) {
            Some(v) => v,
            None => continue,
        };
        let need = match refmodel::encode(d, &v, nn * 64 + 4096, 0) {
            Ok(i) => i.extent,
            Err(_) => continue,
        };
        for slack in [0usize, 1, a, 2 * a + 3] {
            if let Ok(img) = refmodel::encode(d, &v, need + slack, 0xEE) {
                out.push(ScaleCase { label: format!("scaled:N={}:slack={}", nn, slack), bytes: img.bytes, value: Some(v.clone()), extent: img.extent, mask: img.mask });
            }
        }
    }
    out
}

pub fn scale_case_by_label(d: &refmodel::Desc, label: &str) -> Option<ScaleCase> {
    for th in [false, true] {
        if let Some(c) = scale_cases(d, th).into_iter().find(|c| c.label == label) {
            return Some(c);
        }
    }
    None
}
