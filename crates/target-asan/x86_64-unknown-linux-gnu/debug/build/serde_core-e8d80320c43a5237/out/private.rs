#[doc(hidden)]
pub mod __private229 {
    #[doc(hidden)]
    pub use crate::private::*;
}
