#[doc(hidden)]
pub mod __private229 {
    #[doc(hidden)]
    pub use crate::private::*;
}
use serde_core::__private229 as serde_core_private;
