//! Dedicated probes for facts the catalog engines cannot see (C01).
//!
//! This package is compiled with opt-level 0 (see the workspace profile): generic flatty code is
//! instantiated HERE, so nothing the optimiser would delete (an empty loop over zero-sized elements) is
//! deleted — the behaviour of an unoptimised user build. Two families:
//!  * `zst_len`: a vector of zero-sized elements whose length field announces 2^32-1 / 2^64-1 elements:
//!    validation must return without walking that many elements (the announced length is not backed by bytes);
//!  * `u128_length`: containers whose length / offset type is u128 (it implements `Length`): validation of
//!    all-ones bytes must not panic.

use flatty::{prelude::*, FlatString, FlatVec, FlexVec};
use harness::report::{self, catch, PropAcc, Report};
use serde_json::json;
use std::sync::mpsc;
use std::time::Duration;

#[repr(C, align(16))]
struct Aligned([u8; 64]);

fn timed<F: FnOnce() -> String + Send + 'static>(limit: Duration, f: F) -> Option<String> {
    let (tx, rx) = mpsc::channel();
    std::thread::spawn(move || {
        let r = f();
        let _ = tx.send(r);
    });
    rx.recv_timeout(limit).ok()
}

fn zst_case<T: Flat + ?Sized + 'static>(acc: &mut PropAcc, name: &'static str, len_bytes: usize, limit: Duration) {
    acc.evaluations += 1;
    acc.distinct.insert(format!("zst_len:{}", name));
    report::journal(format!("probe zst_len {}", name).as_bytes());
    let r = timed(limit, move || {
        let mut b = Aligned([0u8; 64]);
        for x in b.0[..len_bytes].iter_mut() {
            *x = 0xFF;
        }
        match catch(|| T::validate(&b.0[..32]).map(|_| ())) {
            Ok(r) => format!("{:?}", r),
            Err(p) => format!("panic: {}", p),
        }
    });
    report::journal_idle();
    match r {
        Some(s) if s.starts_with("panic") => acc.violate(format!("decode/panic/zst_len/{}", name), format!("{}: validate of a length field of all ones: {}", name, s), json!({"engine": "probe", "family": "zst_len", "type": name})),
        Some(_) => {}
        None => acc.violate(
            format!("decode/hang/zst_len/{}", name),
            format!("{}: validate did not return within {:?} on 32 bytes whose length field announces 2^{}-1 zero-sized elements (it walks every announced element)", name, limit, 8 * len_bytes),
            json!({"engine": "probe", "family": "zst_len", "type": name}),
        ),
    }
}

fn zst_len1_case(acc: &mut PropAcc, limit: Duration) {
    let name = "FlatVec<[();usize::MAX],u8>";
    acc.evaluations += 1;
    acc.distinct.insert(format!("zst_len:{}", name));
    report::journal(format!("probe zst_len {}", name).as_bytes());
    let r = timed(limit, move || {
        let b = Aligned([1u8; 64]);
        match catch(|| FlatVec::<[(); usize::MAX], u8>::validate(&b.0[..1]).map(|_| ())) {
            Ok(r) => format!("{:?}", r),
            Err(p) => format!("panic: {}", p),
        }
    });
    report::journal_idle();
    if r.is_none() {
        acc.violate(format!("decode/hang/zst_len/{}", name), format!("{}: validate of the single byte 01 did not return within {:?} (the element, a zero-sized array, is walked)", name, limit), json!({"engine": "probe", "family": "zst_len", "type": name}));
    }
}

fn u128_case<T: Flat + ?Sized + 'static>(acc: &mut PropAcc, name: &'static str) {
    for fill in [0xFFu8, 0xFE] {
        acc.evaluations += 1;
        acc.distinct.insert(format!("u128_length:{}", name));
        report::journal(format!("probe u128_length {} fill={}", name, fill).as_bytes());
        let mut b = Aligned([fill; 64]);
        b.0[0] = fill;
        let r = catch(|| T::validate(&b.0[..48]).map(|_| ()));
        report::journal_idle();
        if let Err(p) = r {
            acc.violate(
                format!("decode/panic/u128_length/{}", name),
                format!("{}: validate of 48 bytes of {:02x} panics: {}", name, fill, p),
                json!({"engine": "probe", "family": "u128_length", "type": name}),
            );
        }
    }
}

fn main() {
    let args = report::parse_args();
    report::install(0);
    let rep = Report::new("probe", &args.tier);
    let mut acc = PropAcc::default();
    let limit = Duration::from_secs(if args.thorough() { 12 } else { 5 });
    let only = args.replay.as_ref().map(|p| {
        let j: serde_json::Value = serde_json::from_str(&std::fs::read_to_string(p).unwrap()).unwrap();
        let c = if j.get("replay").is_some() { j["replay"].clone() } else { j };
        (c["family"].as_str().unwrap_or("").to_string(), c["type"].as_str().unwrap_or("").to_string())
    });
    let want = |fam: &str, ty: &str| only.as_ref().map_or(true, |(f, t)| f == fam && t == ty);
    if want("zst_len", "FlatVec<(),u32>") {
        zst_case::<FlatVec<(), u32>>(&mut acc, "FlatVec<(),u32>", 4, limit);
    }
    if want("zst_len", "FlatVec<(),u64>") {
        zst_case::<FlatVec<(), u64>>(&mut acc, "FlatVec<(),u64>", 8, limit);
    }
    if want("zst_len", "FlatVec<[u16;0],u64>") {
        zst_case::<FlatVec<[u16; 0], u64>>(&mut acc, "FlatVec<[u16;0],u64>", 8, limit);
    }
    if want("zst_len", "[();usize::MAX]") {
        zst_case::<[(); usize::MAX]>(&mut acc, "[();usize::MAX]", 0, limit);
    }
    if want("zst_len", "FlatVec<[();usize::MAX],u8>") {
        // length 1: the one (zero-sized) element is itself an array of usize::MAX zero-sized elements
        zst_len1_case(&mut acc, limit);
    }
    if want("u128_length", "FlatVec<u8,u128>") {
        u128_case::<FlatVec<u8, u128>>(&mut acc, "FlatVec<u8,u128>");
    }
    if want("u128_length", "FlatString<u128>") {
        u128_case::<FlatString<u128>>(&mut acc, "FlatString<u128>");
    }
    if want("u128_length", "FlexVec<u8,u128>") {
        u128_case::<FlexVec<u8, u128>>(&mut acc, "FlexVec<u8,u128>");
    }
    acc.exhaustive = true;
    acc.notes.push("dedicated probes at opt-level 0: zero-sized elements with an announced length of 2^32-1 / 2^64-1, u128 length types".into());
    let n = acc.violations.len();
    for v in acc.violations.values() {
        println!("  VCLASS {} :: {}", v.key, v.detail);
    }
    if args.replay.is_some() {
        println!("replay: reproduced={}", n > 0);
        std::process::exit(if n > 0 { 1 } else { 0 });
    }
    rep.merge("C01", acc);
    rep.write(&args.out);
    println!("engine=probe prop=C01 violation_classes={}", n);
    std::process::exit(0);
}
