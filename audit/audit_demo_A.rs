#![allow(dead_code)]
//! Audit counterexamples for properties C01 / C02.
//!
//! Place as tests/src/audit_demo.rs and add `mod audit_demo;` to tests/src/lib.rs, then
//! `cargo test -p flatty-tests --offline audit_demo`.
//! Every test below FAILS on the unmodified library (17 of 17 failed when run).

use flatty::{flat, prelude::*, AlignedBytes, FlatString, FlatVec, FlexVec};

// ---------------------------------------------------------------------------
// F1: length type u128
// ---------------------------------------------------------------------------

/// C01 ("always terminates with Ok or Err, never panics"), type FlatVec<u8, u128>.
/// `u128: Flat + Length`, so the type is expressible. A perfectly ordinary *empty* vector image panics in validate.
#[test]
fn f1a_flatvec_u128_len_validate_panics_on_empty_image() {
    let mem = AlignedBytes::from_slice(&[0u8; 32], 16);
    let r = std::panic::catch_unwind(|| FlatVec::<u8, u128>::validate(&mem).is_ok());
    assert!(r.is_ok(), "C01 violated: validate panicked instead of returning Ok/Err");
}

/// C01, type FlatVec<u8, u128>, length header = u128::MAX (boundary value of header field).
#[test]
fn f1b_flatvec_u128_len_validate_panics_on_huge_len() {
    let mut mem = AlignedBytes::from_slice(&[0u8; 32], 16);
    mem[..16].copy_from_slice(&[0xff; 16]);
    let r = std::panic::catch_unwind(|| FlatVec::<u8, u128>::validate(&mem).is_ok());
    assert!(r.is_ok(), "C01 violated: validate panicked instead of returning Ok/Err");
}

/// C01, type FlatString<u128>.
#[test]
fn f1c_flatstring_u128_validate_panics() {
    let mem = AlignedBytes::from_slice(&[0u8; 32], 16);
    let r = std::panic::catch_unwind(|| FlatString::<u128>::validate(&mem).is_ok());
    assert!(r.is_ok(), "C01 violated: validate panicked instead of returning Ok/Err");
}

/// C01, type FlexVec<u8, u128>, first offset header = 2^64 (does not fit usize).
#[test]
fn f1d_flexvec_u128_validate_panics() {
    let mut mem = AlignedBytes::from_slice(&[0u8; 64], 16);
    mem[..16].copy_from_slice(&(1u128 << 64).to_ne_bytes());
    let r = std::panic::catch_unwind(|| FlexVec::<u8, u128>::validate(&mem).is_ok());
    assert!(r.is_ok(), "C01 violated: validate panicked instead of returning Ok/Err");
}

/// C01, type FlexVec<u8, u128>, a small in-bounds offset (32): panics on `L::max_value().to_usize().unwrap()`.
#[test]
fn f1e_flexvec_u128_validate_panics_on_wellformed() {
    let mut mem = AlignedBytes::from_slice(&[0u8; 64], 16);
    mem[..16].copy_from_slice(&32u128.to_ne_bytes());
    let r = std::panic::catch_unwind(|| FlexVec::<u8, u128>::validate(&mem).is_ok());
    assert!(r.is_ok(), "C01 violated: validate panicked instead of returning Ok/Err");
}

// ---------------------------------------------------------------------------
// F2: explicit discriminants
// ---------------------------------------------------------------------------

#[flat]
#[derive(Clone, Copy, Debug, PartialEq, Eq)]
enum Explicit {
    A = 1,
    B = 5,
}

/// C02 ("succeeds iff ... enum tags in range", "the value's own bytes validate again").
/// The macro accepts a C-like enum with explicit discriminants, but validation checks `tag < variant_count`.
#[test]
fn f2a_c_like_explicit_discriminant_valid_value_rejected() {
    let v = Explicit::B;
    let bytes = v.as_bytes().to_vec();
    assert_eq!(bytes, [5]);
    assert!(
        Explicit::validate(&bytes).is_ok(),
        "C02 violated: bytes of a live value `Explicit::B` do not validate: {:?}",
        Explicit::validate(&bytes)
    );
}

/// C02 / memory safety: byte 0 is not a discriminant of `Explicit` (A = 1, B = 5) but is accepted,
/// so from_bytes hands out a reference to an invalid enum value.
#[test]
fn f2b_c_like_explicit_discriminant_invalid_value_accepted() {
    assert!(
        Explicit::validate(&[0u8]).is_err(),
        "C02 violated: tag 0 is out of range for enum {{A = 1, B = 5}} but was accepted"
    );
}

#[flat]
#[derive(Clone, Copy, Debug, PartialEq, Eq)]
enum ExplicitData {
    A(u8) = 3,
    B = 7,
}

/// Same for a sized enum with fields (explicit discriminants are legal with a primitive repr).
#[test]
fn f2c_sized_enum_explicit_discriminant() {
    let v = ExplicitData::A(0x11);
    let bytes = v.as_bytes().to_vec();
    assert_eq!(bytes[0], 3);
    assert!(
        ExplicitData::validate(&bytes).is_ok(),
        "C02 violated: bytes of live value do not validate: {:?}",
        ExplicitData::validate(&bytes)
    );
}
#[test]
fn f2d_sized_enum_explicit_discriminant_invalid_accepted() {
    assert!(
        ExplicitData::validate(&[0u8, 0u8]).is_err(),
        "C02 violated: tag 0 is out of range for enum {{A(u8) = 3, B = 7}} but was accepted"
    );
}

// ---------------------------------------------------------------------------
// F3: signed tag type
// ---------------------------------------------------------------------------

#[flat(tag_type = "i8")]
#[derive(Clone, Copy, Debug, PartialEq, Eq)]
enum SignedTag {
    A,
    B,
}

/// C02 (enum tags in range): with a signed tag type the check `tag < 2` passes for every negative tag.
#[test]
fn f3_signed_tag_negative_accepted() {
    assert!(
        SignedTag::validate(&[0xffu8]).is_err(),
        "C02 violated: tag -1 is out of range for a two-variant enum but was accepted"
    );
}

// ---------------------------------------------------------------------------
// F4: user `repr` attributes are passed through but ignored by the layout computation
// ---------------------------------------------------------------------------

#[flat]
#[repr(packed)]
#[derive(Clone, Copy)]
struct Packed {
    a: u8,
    b: u16,
    c: flatty::portable::Bool,
}

/// C02 ("Bool 0/1", "every nested item valid") and C01 (no out-of-bounds access).
/// The macro accepts `#[repr(packed)]` (emits `#[repr(C)] #[repr(packed)]`): real layout a@0 b@1 c@3, SIZE = 4,
/// but validation walks the un-packed layout a@0 b@2 c@4.
#[test]
fn f4a_packed_struct_invalid_bool_accepted() {
    assert_eq!(Packed::SIZE, 4);
    // c (offset 3) = 7 is not a valid Bool; byte 4 is *outside* the 4 bytes of the value.
    let bytes = [0u8, 0, 0, 7, 1];
    assert!(
        Packed::validate(&bytes).is_err(),
        "C02 violated: Bool field holding 7 accepted (validator looked at byte 4 instead of byte 3)"
    );
}

/// The value's own bytes (a valid value!) are rejected / validated by reading past the end of the slice.
#[test]
fn f4b_packed_struct_own_bytes() {
    let v = Packed { a: 0, b: 0, c: flatty::portable::Bool::True };
    // Put the 4 value bytes in front of a poisoned byte, so the out-of-bounds read is observable without UB.
    let mut buf = [0xeeu8; 5];
    buf[..4].copy_from_slice(v.as_bytes());
    assert!(
        Packed::validate(&buf).is_ok(),
        "C02 violated: image of a live value rejected: {:?} (validator reads byte 4, outside the 4-byte value)",
        Packed::validate(&buf)
    );
}

#[flat(sized = false)]
#[repr(align(16))]
struct OverAligned {
    a: u32,
    b: FlatVec<u8, u8>,
}

/// C02 ("succeeds iff the slice is suitably aligned", "everything reachable ... lies inside the given slice").
/// `#[repr(align(16))]` is accepted, but ALIGN is computed from the fields only (4).
#[test]
fn f4c_over_aligned_unsized_struct() {
    let mem = AlignedBytes::from_slice(&[0u8; 32], 16);
    let slice = &mem[4..12]; // 4-aligned, not 16-aligned, 8 bytes
    match OverAligned::from_bytes(slice) {
        Ok(v) => {
            let need_align = core::mem::align_of_val(v);
            let sz = core::mem::size_of_val(v);
            assert!(
                (v as *const OverAligned as *const u8 as usize) % need_align == 0 && sz <= slice.len(),
                "C02 violated: from_bytes returned a reference that needs align {} / covers {} bytes for an {}-byte slice at a 4-aligned address",
                need_align,
                sz,
                slice.len()
            );
        }
        Err(_) => {}
    }
}

// ---------------------------------------------------------------------------
// F5: zero-sized items: 8-byte input makes validate loop 2^64 times
// ---------------------------------------------------------------------------

/// C01 ("always terminates ... never loops without bound").
/// FlatVec<(), u64>: capacity of zero-sized items is limited only by the length type, so `len = u64::MAX` is accepted
/// by the len <= capacity check and then every one of the 2^64 items is validated one by one.
#[test]
fn f5_zst_vec_validate_effectively_never_terminates() {
    use std::sync::mpsc::channel;
    let (tx, rx) = channel();
    std::thread::spawn(move || {
        let mem = AlignedBytes::from_slice(&[0xffu8; 8], 8);
        let r = FlatVec::<(), u64>::validate(&mem).is_ok();
        let _ = tx.send(r);
    });
    let r = rx.recv_timeout(std::time::Duration::from_secs(10));
    assert!(r.is_ok(), "C01 violated: validate of an 8-byte slice did not finish within 10 s (2^64 loop iterations)");
}

// ---------------------------------------------------------------------------
// F6: enum with exactly 256 variants and the default u8 tag
// ---------------------------------------------------------------------------

#[flat]
#[derive(Clone, Copy, Debug, PartialEq, Eq)]
enum Full256 {
    V0,
    V1,
    V2,
    V3,
    V4,
    V5,
    V6,
    V7,
    V8,
    V9,
    V10,
    V11,
    V12,
    V13,
    V14,
    V15,
    V16,
    V17,
    V18,
    V19,
    V20,
    V21,
    V22,
    V23,
    V24,
    V25,
    V26,
    V27,
    V28,
    V29,
    V30,
    V31,
    V32,
    V33,
    V34,
    V35,
    V36,
    V37,
    V38,
    V39,
    V40,
    V41,
    V42,
    V43,
    V44,
    V45,
    V46,
    V47,
    V48,
    V49,
    V50,
    V51,
    V52,
    V53,
    V54,
    V55,
    V56,
    V57,
    V58,
    V59,
    V60,
    V61,
    V62,
    V63,
    V64,
    V65,
    V66,
    V67,
    V68,
    V69,
    V70,
    V71,
    V72,
    V73,
    V74,
    V75,
    V76,
    V77,
    V78,
    V79,
    V80,
    V81,
    V82,
    V83,
    V84,
    V85,
    V86,
    V87,
    V88,
    V89,
    V90,
    V91,
    V92,
    V93,
    V94,
    V95,
    V96,
    V97,
    V98,
    V99,
    V100,
    V101,
    V102,
    V103,
    V104,
    V105,
    V106,
    V107,
    V108,
    V109,
    V110,
    V111,
    V112,
    V113,
    V114,
    V115,
    V116,
    V117,
    V118,
    V119,
    V120,
    V121,
    V122,
    V123,
    V124,
    V125,
    V126,
    V127,
    V128,
    V129,
    V130,
    V131,
    V132,
    V133,
    V134,
    V135,
    V136,
    V137,
    V138,
    V139,
    V140,
    V141,
    V142,
    V143,
    V144,
    V145,
    V146,
    V147,
    V148,
    V149,
    V150,
    V151,
    V152,
    V153,
    V154,
    V155,
    V156,
    V157,
    V158,
    V159,
    V160,
    V161,
    V162,
    V163,
    V164,
    V165,
    V166,
    V167,
    V168,
    V169,
    V170,
    V171,
    V172,
    V173,
    V174,
    V175,
    V176,
    V177,
    V178,
    V179,
    V180,
    V181,
    V182,
    V183,
    V184,
    V185,
    V186,
    V187,
    V188,
    V189,
    V190,
    V191,
    V192,
    V193,
    V194,
    V195,
    V196,
    V197,
    V198,
    V199,
    V200,
    V201,
    V202,
    V203,
    V204,
    V205,
    V206,
    V207,
    V208,
    V209,
    V210,
    V211,
    V212,
    V213,
    V214,
    V215,
    V216,
    V217,
    V218,
    V219,
    V220,
    V221,
    V222,
    V223,
    V224,
    V225,
    V226,
    V227,
    V228,
    V229,
    V230,
    V231,
    V232,
    V233,
    V234,
    V235,
    V236,
    V237,
    V238,
    V239,
    V240,
    V241,
    V242,
    V243,
    V244,
    V245,
    V246,
    V247,
    V248,
    V249,
    V250,
    V251,
    V252,
    V253,
    V254,
    V255,
}

/// C02 ("enum tags in range" must be accepted, "the value's own bytes validate again").
/// The range check is generated as `*tag < 256` with `tag: &u8`; the literal wraps to 0 (the overflowing-literal lint is
/// silenced inside proc-macro output), so *every* tag is rejected.
#[test]
fn f6_enum_with_256_variants_rejects_everything() {
    let v = Full256::V3;
    let r = Full256::validate(v.as_bytes());
    assert!(r.is_ok(), "C02 violated: image of live value Full256::V3 rejected: {:?}", r);
}

// F3 (continued): unsized enum with signed tag type.
#[flat(sized = false, tag_type = "i8")]
enum UnsizedSignedTag {
    A,
    B(FlatVec<u8, u8>),
}

/// C01 (never panics): tag -1 passes the `tag < 2` check and is then used as `DATA_MIN_SIZES[*tag as usize]`.
#[test]
fn f3b_unsized_signed_tag_panics() {
    let mem = AlignedBytes::from_slice(&[0xff, 0, 0, 0], 4);
    let r = std::panic::catch_unwind(|| UnsizedSignedTag::validate(&mem).is_ok());
    assert!(r.is_ok(), "C01 violated: validate panicked (index out of bounds) instead of returning Err");
    assert!(!r.unwrap(), "C02 violated: tag -1 accepted");
}

// F4 (continued): `#[repr(align(N))]` on a sized enum moves DATA_OFFSET (computed as ceil(tag size, ALIGN)) away from the
// real payload offset (1).
#[flat]
#[repr(align(8))]
#[derive(Clone, Copy)]
enum AlignedEnum {
    A(flatty::portable::Bool),
    B,
}

/// C02 (Bool 0/1 / nested items valid) and C01 (reads outside): payload really lives at byte 1, validator checks byte 8,
/// which is outside the 8-byte value.
#[test]
fn f4d_aligned_sized_enum_invalid_bool_accepted() {
    assert_eq!(AlignedEnum::SIZE, 8);
    let v = AlignedEnum::A(flatty::portable::Bool::True);
    assert_eq!(&v.as_bytes()[..2], &[0, 1]);
    let mut mem = AlignedBytes::from_slice(&[0u8; 16], 8);
    mem[1] = 7; // invalid Bool in variant A
    assert!(
        AlignedEnum::validate(&mem).is_err(),
        "C02 violated: AlignedEnum::A(<Bool = 7>) accepted (validator looked at byte 8 instead of byte 1)"
    );
}
