//! Audit demonstrations for C12 / C13 (FlexVec / FlatVec / FlatString).
//!
//! Only tests that FAIL on the unmodified library are kept here.
//! (The passing differential/model tests that were used for the search are in
//! `audit_model.rs` and `audit_directed.rs`.)
#![allow(unused_imports, dead_code)]
use flatty::{prelude::*, AlignedBytes, FlatVec, FlexVec};
use std::{sync::mpsc, thread, time::Duration};

/// Runs `f` on another thread and fails if it does not finish within `secs` seconds.
/// `f` reports the steps it has completed through the given sender; the failure message names the last one.
fn must_finish<F: FnOnce(&mpsc::Sender<&'static str>) + Send + 'static>(secs: u64, what: &str, f: F) {
    let (tx, rx) = mpsc::channel();
    thread::spawn(move || {
        f(&tx);
        let _ = tx.send("done");
    });
    let deadline = std::time::Instant::now() + Duration::from_secs(secs);
    let mut last = "start";
    loop {
        let left = deadline.saturating_duration_since(std::time::Instant::now());
        match rx.recv_timeout(left) {
            Ok("done") => return,
            Ok(step) => last = step,
            Err(mpsc::RecvTimeoutError::Timeout) => {
                panic!("{} did not finish within {} s (last completed step: {:?})", what, secs, last)
            }
            Err(mpsc::RecvTimeoutError::Disconnected) => panic!("worker panicked after step {:?}", last),
        }
    }
}

/// Contradicts C12, clause "pop removes exactly the last item" (and "truncate(n) keeps exactly the first
/// min(n, len) items", `clear`), quantified "for every item type (... FlatVec ...) ... from every reachable state".
///
/// Item type: `FlatVec<(), u64>` (zero-sized elements, so the element count is limited only by the length
/// type - `FlatVec::validate` explicitly accepts this, see the comment in containers/src/vec.rs).
/// State: one item whose length field is `u64::MAX`; the 16-byte image below is accepted by
/// `FlexVec::from_mut_bytes`, `len()`, `iter()` and `size()` all work on it.
/// `pop()` (-> `truncate` -> `ptr::drop_in_place(item)`) then walks over all 2^64 elements of the item
/// and never returns in the default (unoptimised) test profile.
#[test]
fn f1_pop_never_returns_for_item_with_huge_zst_count() {
    must_finish(5, "FlexVec::pop", |step| {
        let mut mem = AlignedBytes::new(64, 8);
        mem.fill(0);
        mem[0] = 0xFF; // offset slot of item 0: u8::MAX == "last item" (slot padded to 8 bytes)
        for b in &mut mem[8..16] {
            *b = 0xFF; // FlatVec<(), u64> length field = u64::MAX
        }
        let v = FlexVec::<FlatVec<(), u64>, u8>::from_mut_bytes(&mut mem).unwrap();
        assert_eq!(v.len(), 1);
        assert_eq!(v.iter().next().unwrap().len(), usize::MAX);
        assert_eq!(v.size(), 16);
        step.send("state built and inspected; calling pop()").unwrap();
        v.pop().unwrap(); // <- never returns
        assert_eq!(v.len(), 0);
    });
}

/// Same defect through `truncate` / `clear`, with more than one item, to show that it is the removal itself.
#[test]
fn f1b_truncate_never_returns_for_item_with_huge_zst_count() {
    must_finish(5, "FlexVec::truncate", |step| {
        let mut mem = AlignedBytes::new(64, 8);
        mem.fill(0);
        let v = FlexVec::<FlatVec<(), u64>, u8>::default_in_place(&mut mem).unwrap();
        v.push_default().unwrap().push(()).unwrap();
        v.push_default().unwrap();
        assert_eq!(v.len(), 2);
        // "in-place edit" of item 1: set its length field to u64::MAX (the bytes stay valid).
        // Item 1 lives at slot 16, payload 24.
        let _ = v;
        for b in &mut mem[24..32] {
            *b = 0xFF;
        }
        let v = FlexVec::<FlatVec<(), u64>, u8>::from_mut_bytes(&mut mem).unwrap();
        assert_eq!(v.len(), 2);
        assert_eq!(v.iter().nth(1).unwrap().len(), usize::MAX);
        step.send("state built and inspected; calling truncate(1)").unwrap();
        v.truncate(1); // <- never returns
        assert_eq!(v.len(), 1);
        assert_eq!(v.iter().next().unwrap().len(), 1);
    });
}

/// Contradicts C12 ("after any sequence of push ... a FlexVec reports the length and yields the items",
/// "for every item type (sized, ...)") for the sized zero-sized item type `[(); usize::MAX]`:
/// the first push works, every later `push`, `size()` and `from_bytes` re-validates the last item with
/// `<[T; N] as FlatValidate>::validate_unchecked`, which loops N = 2^64 times.
#[test]
fn f2_second_push_never_returns_for_huge_zst_array_item() {
    must_finish(5, "second FlexVec::push", |step| {
        let mut mem = AlignedBytes::new(16, 8);
        mem.fill(0);
        let v = FlexVec::<[(); usize::MAX], u8>::default_in_place(&mut mem).unwrap();
        v.push([(); usize::MAX]).unwrap();
        assert_eq!(v.len(), 1);
        step.send("first push done; calling second push").unwrap();
        v.push([(); usize::MAX]).unwrap(); // <- never returns (validates the previous item)
        assert_eq!(v.len(), 2);
    });
}
