//! AUDIT demos for properties C08 and C10 (flatty-io).
//! Every test here is expected to FAIL on the unmodified library.
//! Only the public API of `flatty` / `flatty-io` is used.

use flatty::{
    flat, flex,
    prelude::*,
    vec::{self, FlatVec},
    FlexVec,
};
use flatty_io::{AsyncReceiver, AsyncSender, Receiver, RecvError, Sender};
use futures::{
    io::{AsyncRead, AsyncWrite},
    task::noop_waker,
};
use std::{
    cell::RefCell,
    collections::VecDeque,
    future::Future,
    io::{self, Read},
    pin::Pin,
    rc::Rc,
    sync::mpsc,
    task::{Context, Poll},
    thread,
    time::Duration,
};

// ---------------------------------------------------------------------------------------------
// Helpers
// ---------------------------------------------------------------------------------------------

/// Blocking reader that hands out a scripted list of chunks and then reports end of stream.
/// Counts how many times it has been asked for input after the script was exhausted.
struct ScriptReader {
    chunks: VecDeque<Vec<u8>>,
    reads_after_end: Rc<RefCell<usize>>,
}
impl ScriptReader {
    fn new(chunks: &[&[u8]]) -> (Self, Rc<RefCell<usize>>) {
        let counter = Rc::new(RefCell::new(0));
        (
            Self {
                chunks: chunks.iter().map(|c| c.to_vec()).collect(),
                reads_after_end: counter.clone(),
            },
            counter,
        )
    }
}
impl Read for ScriptReader {
    fn read(&mut self, buf: &mut [u8]) -> io::Result<usize> {
        match self.chunks.pop_front() {
            Some(mut chunk) => {
                let n = chunk.len().min(buf.len());
                buf[..n].copy_from_slice(&chunk[..n]);
                if n < chunk.len() {
                    self.chunks.push_front(chunk.split_off(n));
                }
                Ok(n)
            }
            None => {
                *self.reads_after_end.borrow_mut() += 1;
                Ok(0)
            }
        }
    }
}

/// Async reader with the same script; never Pending.
struct AsyncScriptReader(ScriptReader);
impl AsyncRead for AsyncScriptReader {
    fn poll_read(mut self: Pin<&mut Self>, _cx: &mut Context<'_>, buf: &mut [u8]) -> Poll<io::Result<usize>> {
        Poll::Ready(self.0.read(buf))
    }
}

/// Poll a future with a no-op waker at most `max_polls` times.
fn poll_bounded<F: Future>(fut: F, max_polls: usize) -> Option<F::Output> {
    let mut fut = Box::pin(fut);
    let waker = noop_waker();
    let mut cx = Context::from_waker(&waker);
    for _ in 0..max_polls {
        if let Poll::Ready(x) = fut.as_mut().poll(&mut cx) {
            return Some(x);
        }
    }
    None
}

// ---------------------------------------------------------------------------------------------
// C10, last clause: "If the stream continues with a message that is complete but malformed in
// content, recv reports a parse error rather than asking for more input."
//
// Message type: FlexVec<FlatVec<u8, u8>, u8>  (ALIGN 1, offset slot 1 byte).
// Stream: 03 05 AA 00 | FF 00
//   message 1 = zero-terminated chain (first documented FlexVec form):
//       slot0 = 3  -> item 0 occupies bytes 1..3 = [05 AA], next slot at byte 3
//       slot1 = 0  -> end of chain.   The message is COMPLETE: 4 bytes, terminator included.
//     Item 0 is a FlatVec<u8,u8> that claims len = 5 inside a slot that has room for 1 element:
//     malformed content, and no amount of further input can ever repair it, because the item's
//     extent is fixed by slot0.
//   message 2 = FF 00 : a perfectly valid one-item vector (last-item form, empty FlatVec).
//
// FlexVec::validate_unchecked forwards the item's `InsufficientSize` unchanged, recv treats every
// InsufficientSize as "need more bytes", so it keeps reading: it asks the pipe for more input and
// finally reports Closed (or Read(OutOfMemory) on a long stream, or blocks forever on an idle
// pipe) instead of Parse.
// ---------------------------------------------------------------------------------------------

type Nested = FlexVec<FlatVec<u8, u8>, u8>;
const NESTED_STREAM: &[u8] = &[0x03, 0x05, 0xAA, 0x00, /* next, valid message: */ 0xFF, 0x00];

#[test]
fn c10_blocking_complete_malformed_flexvec_item_asks_for_more_input() {
    // sanity: the second message alone is valid, the first one alone is rejected by validate.
    assert!(Nested::from_bytes(&NESTED_STREAM[4..]).is_ok());
    assert!(Nested::from_bytes(&NESTED_STREAM[..4]).is_err());

    let (reader, reads_after_end) = ScriptReader::new(&[NESTED_STREAM]);
    let mut receiver = Receiver::<Nested, _>::io(reader, 16);
    let res = receiver.recv();
    let asked = *reads_after_end.borrow();
    match res {
        Err(RecvError::Parse(_)) => (),
        Err(RecvError::Closed) => panic!(
            "C10 violated: complete but malformed message -> recv asked for more input ({} extra read(s)) and reported Closed instead of Parse",
            asked
        ),
        Err(RecvError::Read(e)) => panic!("C10 violated: Read({:?}) instead of Parse", e),
        Ok(_) => panic!("C10 violated: malformed message handed out"),
    }
}

#[test]
fn c10_async_complete_malformed_flexvec_item_asks_for_more_input() {
    // One byte per chunk this time.
    let chunks: Vec<&[u8]> = NESTED_STREAM.chunks(1).collect();
    let (reader, reads_after_end) = ScriptReader::new(&chunks);
    let mut receiver = AsyncReceiver::<Nested, _>::io(AsyncScriptReader(reader), 16);
    let res = poll_bounded(receiver.recv(), 100).expect("recv did not complete");
    let asked = *reads_after_end.borrow();
    match res {
        Err(RecvError::Parse(_)) => (),
        Err(RecvError::Closed) => panic!(
            "C10 violated: complete but malformed message -> recv asked for more input ({} extra read(s)) and reported Closed instead of Parse",
            asked
        ),
        Err(RecvError::Read(e)) => panic!("C10 violated: Read({:?}) instead of Parse", e),
        Ok(_) => panic!("C10 violated: malformed message handed out"),
    };
}

/// Same clause, long stream: the malformed (complete) first message is followed by many valid
/// messages. recv swallows all of them into its buffer and ends with buffer exhaustion
/// (Read(OutOfMemory)) instead of a parse error.
#[test]
fn c10_blocking_complete_malformed_message_ends_in_buffer_exhaustion() {
    let mut stream = NESTED_STREAM[..4].to_vec();
    for _ in 0..64 {
        stream.extend_from_slice(&[0xFF, 0x00]);
    }
    let (reader, _) = ScriptReader::new(&[&stream]);
    let mut receiver = Receiver::<Nested, _>::io(reader, 8);
    match receiver.recv() {
        Err(RecvError::Parse(_)) => (),
        Err(RecvError::Read(e)) => panic!("C10 violated: Read({:?}) instead of Parse for a complete malformed message", e),
        Err(RecvError::Closed) => panic!("C10 violated: Closed instead of Parse"),
        Ok(_) => panic!("C10 violated: malformed message handed out"),
    };
}

/// Same clause with an unsized enum as the (non-last) item: the item's tag selects a variant whose
/// minimal size does not fit into the item's slot.
#[flat(sized = false, default = true)]
enum Item {
    #[default]
    A,
    B(u32),
}

#[test]
fn c10_blocking_complete_malformed_enum_item_asks_for_more_input() {
    type M = FlexVec<Item, u8>;
    // Item: ALIGN 4, MIN_SIZE 4 (tag + padding); variant B needs 8 bytes.
    // FlexVec<Item,u8>: ALIGN 4, offset slot 4 bytes.
    // slot0 = 8 -> item 0 = bytes 4..8 = tag B, but no room for the u32; slot1 = 0 terminates.
    let stream: [u8; 12] = [8, 0, 0, 0, /* tag B */ 1, 0, 0, 0, /* terminator */ 0, 0, 0, 0];
    let (reader, reads_after_end) = ScriptReader::new(&[&stream]);
    let mut receiver = Receiver::<M, _>::io(reader, 32);
    let res = receiver.recv();
    let asked = *reads_after_end.borrow();
    match res {
        Err(RecvError::Parse(_)) => (),
        Err(RecvError::Closed) => panic!(
            "C10 violated: complete malformed message -> {} extra read(s), Closed instead of Parse",
            asked
        ),
        Err(RecvError::Read(e)) => panic!("C10 violated: Read({:?}) instead of Parse", e),
        Ok(_) => panic!("C10 violated: malformed message handed out"),
    };
}

// ---------------------------------------------------------------------------------------------
// C10: "every call to recv terminates ... never spins", "for every message type, every byte
// stream".
//
// Message type FlatVec<(), u64> (zero-sized items are explicitly supported: capacity is
// usize::MAX). The 8 bytes FF*8 announce len = 2^64-1. FlatVec::validate_unchecked then runs
// `for x in data[..len] { T::validate_ptr(x) }`, i.e. a loop whose trip count is chosen by the
// peer and is not bounded by the number of bytes received. In an unoptimised build recv spins
// for 2^64 iterations; 8 hostile bytes hang the receiver.
// ---------------------------------------------------------------------------------------------

#[test]
fn c10_blocking_zst_vec_len_makes_recv_spin() {
    let (tx, rx) = mpsc::channel();
    thread::spawn(move || {
        let (reader, _) = ScriptReader::new(&[&[0xFF; 8]]);
        let mut receiver = Receiver::<FlatVec<(), u64>, _>::io(reader, 8);
        let outcome = match receiver.recv() {
            Ok(guard) => format!("message with len {}", guard.len()),
            Err(RecvError::Parse(e)) => format!("parse error {:?}", e),
            Err(RecvError::Read(e)) => format!("read error {:?}", e),
            Err(RecvError::Closed) => "closed".to_string(),
        };
        let _ = tx.send(outcome);
    });
    match rx.recv_timeout(Duration::from_secs(10)) {
        Ok(outcome) => println!("recv terminated: {}", outcome),
        Err(_) => panic!("C10 violated: recv on 8 received bytes did not terminate within 10 s (spinning in validate)"),
    }
}

#[test]
fn c10_async_zst_vec_len_makes_recv_spin() {
    let (tx, rx) = mpsc::channel();
    thread::spawn(move || {
        let (reader, _) = ScriptReader::new(&[&[0xFF; 8]]);
        let mut receiver = AsyncReceiver::<FlatVec<(), u64>, _>::io(AsyncScriptReader(reader), 8);
        let outcome = match poll_bounded(receiver.recv(), 100) {
            None => "pending".to_string(),
            Some(Ok(guard)) => format!("message with len {}", guard.len()),
            Some(Err(RecvError::Parse(e))) => format!("parse error {:?}", e),
            Some(Err(RecvError::Read(e))) => format!("read error {:?}", e),
            Some(Err(RecvError::Closed)) => "closed".to_string(),
        };
        let _ = tx.send(outcome);
    });
    match rx.recv_timeout(Duration::from_secs(10)) {
        Ok(outcome) => println!("recv terminated: {}", outcome),
        Err(_) => panic!("C10 violated: a single poll of recv on 8 received bytes did not return within 10 s"),
    }
}

// ---------------------------------------------------------------------------------------------
// C08: "delivers exactly the sent message sequence ... no message is lost, duplicated ..."
// for every message sequence / message type.
//
// Message type `()` (Flat, size 0). Two messages are sent (both sends complete and flush), the
// sender is dropped (pipe closed). The receiver must deliver two messages and then Closed.
// Instead `recv` never touches the pipe (validate of the empty buffer succeeds) and hands out
// an unbounded number of messages; Closed is never reported.
// ---------------------------------------------------------------------------------------------

#[derive(Default)]
struct PipeState {
    data: VecDeque<u8>,
    closed: bool,
    flushes: usize,
}
#[derive(Clone, Default)]
struct MemPipe(Rc<RefCell<PipeState>>);
struct MemWriter(MemPipe);
struct MemReader(MemPipe);
impl Drop for MemWriter {
    fn drop(&mut self) {
        (self.0).0.borrow_mut().closed = true;
    }
}
impl AsyncWrite for MemWriter {
    fn poll_write(self: Pin<&mut Self>, _cx: &mut Context<'_>, buf: &[u8]) -> Poll<io::Result<usize>> {
        (self.0).0.borrow_mut().data.extend(buf.iter().copied());
        Poll::Ready(Ok(buf.len()))
    }
    fn poll_flush(self: Pin<&mut Self>, _cx: &mut Context<'_>) -> Poll<io::Result<()>> {
        (self.0).0.borrow_mut().flushes += 1;
        Poll::Ready(Ok(()))
    }
    fn poll_close(self: Pin<&mut Self>, _cx: &mut Context<'_>) -> Poll<io::Result<()>> {
        Poll::Ready(Ok(()))
    }
}
impl AsyncRead for MemReader {
    fn poll_read(self: Pin<&mut Self>, _cx: &mut Context<'_>, buf: &mut [u8]) -> Poll<io::Result<usize>> {
        let mut st = (self.0).0.borrow_mut();
        if st.data.is_empty() {
            return if st.closed { Poll::Ready(Ok(0)) } else { Poll::Pending };
        }
        let n = st.data.len().min(buf.len());
        for b in buf[..n].iter_mut() {
            *b = st.data.pop_front().unwrap();
        }
        Poll::Ready(Ok(n))
    }
}

#[test]
fn c08_async_zero_sized_message_is_duplicated_without_end() {
    let pipe = MemPipe::default();
    {
        let mut sender = AsyncSender::<(), _>::io(MemWriter(pipe.clone()), 4);
        for _ in 0..2 {
            let guard = poll_bounded(sender.alloc(), 10).unwrap().unwrap();
            let guard = guard.new_in_place(()).unwrap();
            poll_bounded(guard.send(), 10).unwrap().unwrap();
        }
        assert_eq!(pipe.0.borrow().flushes, 2);
    } // sender (and the pipe's write end) dropped here: stream closed after 2 messages.

    let mut receiver = AsyncReceiver::<(), _>::io(MemReader(pipe.clone()), 4);
    let mut received = 0;
    let mut closed = false;
    for _ in 0..10 {
        match poll_bounded(receiver.recv(), 10).expect("recv pending on a closed pipe") {
            Ok(_guard) => received += 1,
            Err(RecvError::Closed) => {
                closed = true;
                break;
            }
            Err(_) => panic!("unexpected error"),
        }
    }
    assert!(
        closed && received == 2,
        "C08 violated: 2 messages sent, then closed; receiver delivered {} messages, closed reported: {}",
        received,
        closed
    );
}

// ---------------------------------------------------------------------------------------------
// C10: "Whatever bytes a peer sends ... It never panics", "for every message type".
//
// `u128` implements `Length`, so FlatVec<_, u128>, FlatString<u128> and FlexVec<_, u128> are
// message types the public API accepts. A length / offset field above usize::MAX makes
// validation panic (`to_usize().unwrap()` in stavec's `len()` resp. flex.rs DataIter::next)
// instead of returning an error, so 16 hostile bytes panic the receiver.
// ---------------------------------------------------------------------------------------------

#[test]
fn c10_blocking_u128_len_flatvec_panics() {
    let (reader, _) = ScriptReader::new(&[&[0xFF; 16]]);
    let mut receiver = Receiver::<FlatVec<u8, u128>, _>::io(reader, 32);
    // Any of message / Parse / Read / Closed would be acceptable; a panic is not.
    let _ = receiver.recv().map(|_| ());
}

#[test]
fn c10_blocking_u128_len_flatstring_panics() {
    let (reader, _) = ScriptReader::new(&[&[0xFF; 16]]);
    let mut receiver = Receiver::<flatty::FlatString<u128>, _>::io(reader, 32);
    let _ = receiver.recv().map(|_| ());
}

#[test]
fn c10_async_u128_offset_flexvec_panics() {
    // offset slot = 2^128 - 2 (not the L::MAX "last item" marker)
    let mut bytes = [0xFFu8; 32];
    bytes[0] = 0xFE;
    let chunks: Vec<&[u8]> = bytes.chunks(5).collect();
    let (reader, _) = ScriptReader::new(&chunks);
    let mut receiver = AsyncReceiver::<FlexVec<u8, u128>, _>::io(AsyncScriptReader(reader), 32);
    let _ = poll_bounded(receiver.recv(), 100).map(|r| r.map(|_| ()));
}

// keep the imports used even if some tests get removed
#[allow(dead_code)]
fn _unused(_: Sender<u8, flatty_io::IoBuffer<Vec<u8>>>, _: flex::Empty, _: vec::Empty) {}
