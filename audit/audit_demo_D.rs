//! Audit demos for properties C06 (framing contract) and C19 (content error positions).
//!
//! Every test in this file states what the property demands and FAILS on the unmodified library.
//! Only the public API is used.
#![allow(dead_code)]

use flatty::{
    error::{Error, ErrorKind},
    flat,
    portable::Bool,
    prelude::*,
    AlignedBytes, FlatString,
};

/// Copy `src` into a fresh buffer aligned for `align` (never a zero-sized allocation).
fn aligned(src: &[u8], align: usize) -> (AlignedBytes, usize) {
    let mut b = AlignedBytes::new(src.len() + 16, align.max(1));
    b.fill(0xEE);
    b[..src.len()].copy_from_slice(src);
    (b, src.len())
}

/// Image (first `size()` bytes) of a sized value created through the public emplacer API.
fn image<T: Flat + Sized>(value: T) -> Vec<u8> {
    let mut mem = AlignedBytes::new(T::SIZE + 16, T::ALIGN);
    mem.fill(0xEE);
    let size = T::new_in_place(&mut mem, value).unwrap().size();
    mem[..size].to_vec()
}

// ---------------------------------------------------------------------------------------------
// FINDING 1 - explicit discriminants on sized enums are accepted by `#[flat]` but ignored by the
// generated validator (it checks `tag < number_of_variants` and dispatches on the declaration
// index).
//
// C06, last sentence: "Validating m followed by arbitrary further bytes succeeds and yields the
// same content and the same size()" - for EVERY valid value of EVERY flat type usable as a message.
// ---------------------------------------------------------------------------------------------

#[flat]
#[derive(Debug, PartialEq, Eq, Clone, Copy)]
enum Cmd {
    Get = 1,
    Set = 5,
}

/// C06 (extension clause, empty and non-empty suffix): the image of the valid value `Cmd::Set`
/// is `[5]`; validating it must succeed and give `Cmd::Set` again. The code returns
/// `InvalidEnumTag` at 0 because `5 >= 2` (number of variants).
#[test]
fn c06_c_like_enum_with_explicit_discriminants_rejects_its_own_values() {
    let m = image(Cmd::Set);
    assert_eq!(m, [5]);
    for suffix in [&[][..], &[0][..], &[1, 2, 3][..]] {
        let ext = [&m[..], suffix].concat();
        let (buf, n) = aligned(&ext, Cmd::ALIGN);
        assert_eq!(
            Cmd::from_bytes(&buf[..n]).map(|x| (*x, x.size())),
            Ok((Cmd::Set, 1)),
            "C06: m ++ {:?} must validate as the same value",
            suffix
        );
    }
}

#[flat]
#[derive(Debug, PartialEq, Eq, Clone, Copy)]
enum Reply {
    Code(u8) = 1,
    Flag(Bool) = 0,
    Done = 7,
}

/// C06 (extension clause): `Reply::Code(7)` has the image `[1, 7]`. The validator maps tag 1 to the
/// variant declared second (`Flag(Bool)`), checks byte 1 as a Bool and reports a CONTENT error
/// (`InvalidData` at 1) for a perfectly valid value. `Reply::Done` (`[7, _]`) is rejected with
/// `InvalidEnumTag`.
#[test]
fn c06_data_enum_with_explicit_discriminants_rejects_its_own_values() {
    let m = image(Reply::Code(7));
    assert_eq!(m, [1, 7]);
    let (buf, n) = aligned(&m, Reply::ALIGN);
    assert_eq!(Reply::from_bytes(&buf[..n]).map(|x| *x), Ok(Reply::Code(7)), "C06: m must validate");

    let m = image(Reply::Done);
    assert_eq!(m[0], 7);
    let (buf, n) = aligned(&m, Reply::ALIGN);
    assert_eq!(Reply::from_bytes(&buf[..n]).map(|x| *x), Ok(Reply::Done), "C06: m must validate");
}

// ---------------------------------------------------------------------------------------------
// FINDING 2 - additional `#[repr(..)]` attributes are passed through by `#[flat]`, change the real
// layout, but the generated validator keeps using the natural `repr(C)` offsets.
// (Lower confidence: one may argue that adding a repr attribute is misuse; the macro neither
// documents nor rejects it.)
// ---------------------------------------------------------------------------------------------

#[flat]
#[repr(align(8))]
#[derive(Debug, PartialEq, Eq, Clone, Copy)]
enum Wide {
    A,
    B(Bool),
}

/// C06 (extension clause): `Wide::B(True)` is 8 bytes, the Bool lives at offset 1. The validator
/// computes the payload offset as `ceil(1, ALIGN) = 8`, i.e. it looks at the first byte AFTER the
/// message (and, for the exact 8-byte slice, reads out of bounds). With the suffix `[0xEE; ..]` it
/// reports `InvalidData` at 8.
#[test]
fn c06_enum_with_repr_align_checks_bytes_behind_the_message() {
    let m = image(Wide::B(Bool::True));
    assert_eq!(m.len(), 8);
    assert_eq!(&m[..2], [1, 1]);
    let ext = [&m[..], &[0xEE; 8][..]].concat();
    let (buf, n) = aligned(&ext, Wide::ALIGN);
    assert_eq!(
        Wide::from_bytes(&buf[..n]).map(|x| (*x, x.size())),
        Ok((Wide::B(Bool::True), 8)),
        "C06: m followed by garbage must validate as the same value"
    );
}

#[flat]
#[repr(packed)]
struct Packed {
    a: u8,
    b: u32,
    c: Bool,
}

/// C06 (extension clause with empty suffix) / C19: `Packed` is 6 bytes (a@0, b@1, c@5). The validator
/// walks the fields at 0, 4, 8: validating the exact 6-byte image panics (`mid > len` in
/// base/src/utils/iter.rs), and with a longer slice a bad Bool at offset 5 is not noticed at all
/// while byte 8 (behind the message) is checked instead.
#[test]
fn c06_packed_struct_image_panics_in_validate() {
    assert_eq!(<Packed as FlatSized>::SIZE, 6);
    let m = image(Packed {
        a: 1,
        b: 2,
        c: Bool::True,
    });
    assert_eq!(m, [1, 2, 0, 0, 0, 1]);
    let (buf, n) = aligned(&m, 1);
    // Property: succeeds. Code: panics.
    assert_eq!(Packed::validate(&buf[..n]), Ok(()));
}

/// C06 (extension clause, non-empty suffix): the same valid 6-byte image followed by garbage is
/// rejected with a content error at offset 8 - a byte that is not part of the message at all.
/// (Conversely `[1, 2,0,0,0, 2, 0,0,0,0,0,0]`, i.e. a bad Bool at its real offset 5, is ACCEPTED.)
#[test]
fn c06_packed_struct_followed_by_garbage_is_rejected() {
    let m = [1u8, 2, 0, 0, 0, 1];
    let ext = [&m[..], &[0xEE; 6][..]].concat();
    let (buf, n) = aligned(&ext, 1);
    assert_eq!(Packed::validate(&buf[..n]), Ok(()), "C06: m followed by garbage must validate");
}

// ---------------------------------------------------------------------------------------------
// FINDING 3 (borderline, depends on how strictly "an offending byte" is read) - C19.
// The position that is reported is the START of the constrained unit (tag / UTF-8 sequence), not
// the byte that is actually wrong.
// ---------------------------------------------------------------------------------------------

#[flat(tag_type = "u32")]
#[derive(Debug, PartialEq, Eq, Clone, Copy)]
enum Wtag {
    A(Bool),
    B(u8, Bool),
}

/// C19: "the error's position is the offset ... of an offending byte ... every way of corrupting
/// exactly one constrained byte". Corrupt only the most significant byte of the native-endian u32
/// tag of a valid image: the three other tag bytes are exactly those of the valid image, the one
/// wrong byte is at offset 3 (on a little-endian target, hence the cfg), the reported position is 0.
#[cfg(target_endian = "little")]
#[test]
fn c19_wide_tag_error_not_at_the_corrupted_byte() {
    let mut m = image(Wtag::B(9, Bool::True));
    assert_eq!(&m[..4], [1, 0, 0, 0]);
    m[3] = 1; // the only corrupted byte
    let (buf, n) = aligned(&m, Wtag::ALIGN);
    let err = Wtag::validate(&buf[..n]).unwrap_err();
    assert_eq!(err.kind, ErrorKind::InvalidEnumTag);
    assert_eq!(err.pos, 3, "C19: the only byte that is wrong is at offset 3");
}

/// C19 for malformed UTF-8: valid image of "a€" is `[4, 'a', E2, 82, AC]`; corrupt exactly the last
/// continuation byte (offset 4). `E2 82` is still a correct beginning of a character, the byte that
/// is wrong is at offset 4; the code reports `DATA_OFFSET + valid_up_to()` = 2.
#[test]
fn c19_utf8_error_not_at_the_corrupted_byte() {
    let mut m = vec![4u8, b'a', 0xE2, 0x82, 0xAC];
    {
        let (buf, n) = aligned(&m, 1);
        assert_eq!(FlatString::<u8>::from_bytes(&buf[..n]).unwrap().as_str(), "a€");
    }
    m[4] = b'A';
    let (buf, n) = aligned(&m, 1);
    let err = FlatString::<u8>::validate(&buf[..n]).unwrap_err();
    assert_eq!(err.kind, ErrorKind::InvalidData);
    assert_eq!(err.pos, 4, "C19: the only byte that is wrong is at offset 4");
}

// ---------------------------------------------------------------------------------------------
// FINDING 4 (low severity, unoptimised builds only) - C06 extension clause says validation of a
// valid image "succeeds". `FlatVec<(), u64>` with len = u64::MAX is a valid 8-byte value (zero-sized
// items take no space, capacity is usize::MAX), but `validate` walks all 2^64 elements one by one.
// In a debug build (the way this test-suite is run) it never returns; with --release the loop is
// optimised away and the test passes.
// ---------------------------------------------------------------------------------------------

#[test]
fn c06_zero_sized_items_validation_does_not_terminate_in_debug() {
    use flatty::FlatVec;
    use std::{sync::mpsc, thread, time::Duration};
    let (tx, rx) = mpsc::channel();
    thread::spawn(move || {
        let m = u64::MAX.to_ne_bytes();
        let (buf, n) = aligned(&m, 8);
        let r = FlatVec::<(), u64>::from_bytes(&buf[..n]).map(|v| (v.len(), v.size()));
        let _ = tx.send(r);
    });
    // Bounded wait instead of a real hang.
    let r = rx.recv_timeout(Duration::from_secs(5));
    assert_eq!(r, Ok(Ok((usize::MAX, 8))), "C06: validating a valid 8-byte image must succeed");
}
