//! Audit counterexamples for C07 / C09 (flatty-io). Every test in this file FAILS on the unmodified code.
//! Only the public API of `flatty` and `flatty-io` is used.

use flatty::{flat, vec::FromIterator, FlatVec};
use flatty_io::{AsyncReceiver, AsyncSender, Receiver, RecvError, Sender};
use futures::io::{AsyncRead, AsyncWrite};
use std::{
    cell::RefCell,
    collections::VecDeque,
    future::Future,
    io::{self, Read, Write},
    pin::Pin,
    rc::Rc,
    task::{Context, Poll, RawWaker, RawWakerVTable, Waker},
};

// ------------------------------------------------------------------------------------------------
// Tiny in-memory pipes.

/// Blocking sink that records everything written into it.
#[derive(Clone, Default)]
struct Sink {
    data: Rc<RefCell<Vec<u8>>>,
    calls: Rc<RefCell<usize>>,
}
impl Write for Sink {
    fn write(&mut self, buf: &[u8]) -> io::Result<usize> {
        *self.calls.borrow_mut() += 1;
        self.data.borrow_mut().extend_from_slice(buf);
        Ok(buf.len())
    }
    fn flush(&mut self) -> io::Result<()> {
        Ok(())
    }
}

/// Blocking source: delivers the given bytes, then reports end of stream.
struct Source {
    data: Vec<u8>,
    pos: usize,
}
impl Read for Source {
    fn read(&mut self, buf: &mut [u8]) -> io::Result<usize> {
        let n = buf.len().min(self.data.len() - self.pos);
        buf[..n].copy_from_slice(&self.data[self.pos..self.pos + n]);
        self.pos += n;
        Ok(n)
    }
}

fn noop_waker() -> Waker {
    fn clone(_: *const ()) -> RawWaker {
        RawWaker::new(std::ptr::null(), &VTABLE)
    }
    fn noop(_: *const ()) {}
    static VTABLE: RawWakerVTable = RawWakerVTable::new(clone, noop, noop, noop);
    unsafe { Waker::from_raw(RawWaker::new(std::ptr::null(), &VTABLE)) }
}

/// Polls the future at most `max_polls` times, then drops it. `None` = still pending when dropped.
fn poll_n<F: Future>(mut f: F, max_polls: usize) -> Option<F::Output> {
    let waker = noop_waker();
    let mut cx = Context::from_waker(&waker);
    let mut f = unsafe { Pin::new_unchecked(&mut f) };
    for _ in 0..max_polls {
        if let Poll::Ready(x) = f.as_mut().poll(&mut cx) {
            return Some(x);
        }
    }
    None
}

#[derive(Clone, Debug)]
enum AW {
    Accept(usize),
    Pending,
}
/// Async sink driven by a script; after the script it accepts everything.
#[derive(Clone, Default)]
struct ASink {
    data: Rc<RefCell<Vec<u8>>>,
    script: Rc<RefCell<VecDeque<AW>>>,
}
impl AsyncWrite for ASink {
    fn poll_write(self: Pin<&mut Self>, _cx: &mut Context<'_>, buf: &[u8]) -> Poll<io::Result<usize>> {
        let op = self.script.borrow_mut().pop_front().unwrap_or(AW::Accept(usize::MAX));
        match op {
            AW::Accept(n) => {
                let n = n.min(buf.len());
                self.data.borrow_mut().extend_from_slice(&buf[..n]);
                Poll::Ready(Ok(n))
            }
            AW::Pending => Poll::Pending,
        }
    }
    fn poll_flush(self: Pin<&mut Self>, _cx: &mut Context<'_>) -> Poll<io::Result<()>> {
        Poll::Ready(Ok(()))
    }
    fn poll_close(self: Pin<&mut Self>, _cx: &mut Context<'_>) -> Poll<io::Result<()>> {
        Poll::Ready(Ok(()))
    }
}

/// Async source that is at end of stream from the very beginning.
struct AEmptySource;
impl AsyncRead for AEmptySource {
    fn poll_read(self: Pin<&mut Self>, _cx: &mut Context<'_>, _buf: &mut [u8]) -> Poll<io::Result<usize>> {
        Poll::Ready(Ok(0))
    }
}

// ------------------------------------------------------------------------------------------------
// FINDING 1 (C07): zero-sized message types.
//
// C07: "a blocking Receiver yields exactly the sequence of messages the Sender sent, in order and with
// equal content, then reports Closed; it never panics and never returns a message that was not sent."
// Quantified "for every message type, every finite sequence of messages".
//
// `()` (also `[T; 0]`, `PhantomData<T>`, `#[flat] struct Unit {}`) is a `Flat` type with SIZE == MIN_SIZE == 0.
// The sender puts 0 bytes on the pipe for each message (the pipe's `write` is never even called), the
// receiver's `M::validate(&[])` always succeeds, so `recv()` NEVER touches the pipe: it returns `Ok` forever,
// i.e. it returns messages that were not sent and never reports `Closed`.

#[test]
fn c07_zero_sized_message_blocking() {
    let sink = Sink::default();
    let mut sender = Sender::<(), _>::io(sink.clone(), 0);
    for _ in 0..3 {
        sender.alloc().unwrap().new_in_place(()).unwrap().send().unwrap();
    }
    drop(sender);
    let stream = sink.data.borrow().clone(); // whatever reached the pipe (nothing)

    let mut receiver = Receiver::<(), _>::io(Source { data: stream, pos: 0 }, 0);
    let mut received = 0;
    loop {
        match receiver.recv() {
            Ok(_guard) => received += 1,
            Err(RecvError::Closed) => break,
            Err(e) => panic!("{:?}", e),
        }
        // bounded loop: 3 messages were sent
        assert!(received <= 3, "C07: received message #{} but only 3 were sent; Closed is never reported", received);
    }
    assert_eq!(received, 3);
}

/// Same with a user-defined unit struct and a nonzero `max_msg_len`; here NOTHING was sent at all
/// and the (blocking) pipe is at end of stream, still a message is delivered.
#[flat]
#[derive(Default)]
pub struct Unit {}

#[test]
fn c07_zero_sized_message_nothing_sent() {
    let mut receiver = Receiver::<Unit, _>::io(Source { data: vec![], pos: 0 }, 16);
    match receiver.recv() {
        Err(RecvError::Closed) => (),
        Ok(_) => panic!("C07: a message was received from an empty, closed stream (never sent)"),
        Err(e) => panic!("{:?}", e),
    };
}

/// The async receiver has the same code (C09 is quantified over "blocking and async variants":
/// end of stream must surface as an error).
#[test]
fn c09_zero_sized_message_async_end_of_stream_never_reported() {
    let mut receiver = AsyncReceiver::<[u64; 0], _>::io(AEmptySource, 8);
    match poll_n(receiver.recv(), 10).expect("hang") {
        Err(RecvError::Closed) => (),
        Ok(_) => panic!("C09/C07: end of stream is not reported, a never-sent message is returned instead"),
        Err(e) => panic!("{:?}", e),
    };
}

// ------------------------------------------------------------------------------------------------
// FINDING 2 (C09, async): a partially written message is not remembered when the send future is dropped.
//
// C09: "The bytes that reached the sink are ALWAYS whole messages followed by at most one partial message
// with nothing after it." (async variant; pipe script: write accepts 1 byte, then is Pending.)
//
// `WriteAll` keeps the write position in the future itself and `IoBuffer::poisoned` is only set when the pipe
// returns an error / 0. If the pipe accepts part of the message and then stays `Pending`, and the caller drops the
// `send()` future (timeout / select - the normal way to deal with a pipe that is stuck), the sender is left
// un-poisoned with `buffer` still allocated. The next `alloc()/send()` succeeds and appends a whole new message
// right after the partial one: the byte stream is corrupt (the receiver decodes a message that was never sent).
// Blocking and error paths do poison the buffer (and then refuse to send), this path does not.

type VMsg = FlatVec<u8, u8>;

#[test]
fn c09_async_send_dropped_after_partial_write_corrupts_stream() {
    let sink = ASink::default();
    *sink.script.borrow_mut() = [AW::Accept(1), AW::Pending].into_iter().collect();
    let mut sender = AsyncSender::<VMsg, _>::io(sink.clone(), 4);

    // Message 1 = [len=2, 1, 2]: the pipe takes one byte, then is Pending; the future is dropped.
    let r = poll_n(
        async {
            sender
                .alloc()
                .await
                .unwrap()
                .new_in_place(FromIterator([1u8, 2].into_iter()))
                .unwrap()
                .send()
                .await
        },
        1, // polled once: the pipe takes 1 byte and then returns Pending; then the future is dropped
    );
    assert!(r.is_none());
    assert_eq!(*sink.data.borrow(), vec![2u8]); // partial message on the wire

    // Message 2 = [len=1, 9]. Must either fail / be refused, or the stream must stay well-formed.
    let r = std::panic::catch_unwind(std::panic::AssertUnwindSafe(|| {
        poll_n(
            async {
                sender
                    .alloc()
                    .await
                    .unwrap()
                    .new_in_place(FromIterator([9u8].into_iter()))
                    .unwrap()
                    .send()
                    .await
            },
            10,
        )
    }));
    let data = sink.data.borrow().clone();
    // whole messages followed by at most one partial message WITH NOTHING AFTER IT:
    assert_eq!(
        data,
        vec![2u8],
        "C09: bytes follow a partial message (second send returned {:?}); sink = {:?}",
        r.map(|x| x.map(|y| y.is_ok())).ok(),
        data
    );
}

/// Consequence on the receiving side of the same scenario: a message that was never sent is delivered.
#[test]
fn c09_async_send_dropped_after_partial_write_receiver_sees_unsent_message() {
    let sink = ASink::default();
    *sink.script.borrow_mut() = [AW::Accept(1), AW::Pending].into_iter().collect();
    let mut sender = AsyncSender::<VMsg, _>::io(sink.clone(), 4);
    let _ = poll_n(
        async {
            sender
                .alloc()
                .await
                .unwrap()
                .new_in_place(FromIterator([1u8, 2].into_iter()))
                .unwrap()
                .send()
                .await
        },
        1, // polled once: the pipe takes 1 byte and then returns Pending; then the future is dropped
    );
    let second = poll_n(
        async {
            sender
                .alloc()
                .await
                .unwrap()
                .new_in_place(FromIterator([9u8].into_iter()))
                .unwrap()
                .send()
                .await
        },
        10,
    );
    assert!(matches!(second, Some(Ok(())))); // reported as successfully sent
    let stream = sink.data.borrow().clone();

    let mut receiver = Receiver::<VMsg, _>::io(Source { data: stream, pos: 0 }, 4);
    let mut got = vec![];
    while let Ok(g) = receiver.recv() {
        got.push(g.as_slice().to_vec());
        assert!(got.len() < 10);
    }
    // Only [9] was (reported as) sent; [1, 2] was abandoned. Anything else is a message nobody sent.
    for m in &got {
        assert!(
            m == &vec![9u8] || m == &vec![1u8, 2],
            "C09/C07: receiver decoded {:?}, which was never sent (all: {:?})",
            m,
            got
        );
    }
}
