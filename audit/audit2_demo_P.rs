//! Audit of properties C05 (size() is the exact extent) and C14 (in-place mutation stays inside the value).
//!
//! RESULT: no counterexample found. Every suspected violation that was turned into a test PASSES on the
//! unmodified code, so - following the rule "keep only those that really fail" - this file contains no test.
//!
//! The passing exploratory suites (kept only as evidence of what was examined, they are NOT findings) are in
//! the sibling modules `audit_explore`, `audit_fuzz`, `audit_fuzz2`, `audit_fuzz3` and `audit_shapes`.
