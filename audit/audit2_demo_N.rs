//! Audit of C09 / C10 (IO layer).
//!
//! RESULT: no test in this file demonstrates a violation of the LITERAL text of C09 or C10.
//! The single test below documents a BORDERLINE behaviour (low confidence that it counts as a
//! violation): it fails (panics) on the unmodified code, but the behaviour it shows is, read
//! literally, left unspecified by C09.  See findings.txt.

use flatty::FlatVec;
use flatty_io::Sender;
use std::io::{self, Write};

/// Accepts 3 bytes, then fails once with `Interrupted` (a transient kind), then works normally.
struct Flaky {
    sink: Vec<u8>,
    calls: usize,
}
impl Write for Flaky {
    fn write(&mut self, buf: &[u8]) -> io::Result<usize> {
        self.calls += 1;
        match self.calls {
            1 => {
                self.sink.extend_from_slice(&buf[..3]);
                Ok(3)
            }
            2 => Err(io::ErrorKind::Interrupted.into()),
            _ => {
                self.sink.extend_from_slice(buf);
                Ok(buf.len())
            }
        }
    }
    fn flush(&mut self) -> io::Result<()> {
        Ok(())
    }
}

/// BORDERLINE (C09, title "IO faults surface as errors" / first sentence).
///
/// Script: write #1 accepts 3 of 8 bytes, write #2 fails with `Interrupted`.
/// The first `send` correctly returns `Err` (C09 satisfied for "the pending send").
/// The sender is now silently poisoned; `alloc()` still succeeds, the caller has no way to query
/// the poisoned state, and the NEXT `send` does not return an error: it panics on
/// `assert!(!self.poisoned)` (io/src/blocking/io.rs, `write_all`; same in async_/io.rs).
/// C09 only speaks about the send that was pending when the pipe failed, so this is strictly
/// outside the statement; it is recorded because the fault surfaces as a panic, not as an error.
#[test]
fn borderline_send_after_partial_write_fault_panics_instead_of_error() {
    let mut tx = Sender::<FlatVec<u8, u16>, _>::io(Flaky { sink: Vec::new(), calls: 0 }, 16);

    let mut g = tx.alloc().unwrap().default_in_place().unwrap();
    g.push_slice(&[1, 2, 3, 4, 5, 6]).unwrap();
    assert!(g.send().is_err()); // as demanded by C09

    // A later send: expected (by the title of C09) an `Err`, observed: panic.
    let g = tx.alloc().unwrap().default_in_place().unwrap();
    let r = std::panic::catch_unwind(std::panic::AssertUnwindSafe(move || g.send()));
    assert!(r.is_ok(), "send() on a sender poisoned by an earlier IO fault panicked instead of returning an error");
}
