//! Audit demos for C16 / C17. Every test in this file FAILS on the unmodified library.
//! Only the public API of `flatty` is used.
#![allow(dead_code)]

use core::mem::{align_of, align_of_val, size_of};
use flatty::{
    flat, flat_vec,
    portable::le,
    traits::{FlatBase, FlatDefault, FlatUnsized, FlatValidate},
    AlignedBytes, FlatVec, FlexVec, Portable,
};

fn assert_portable<T: Portable + ?Sized>() {}

// ---------------------------------------------------------------------------------------------
// F1. C17, clause "Every type declared with #[flat(portable = true)] ... has alignment 1 and no
//     padding anywhere".
//
// The macro only prepends `#[repr(C)]` to the user's item and never looks at the item's own
// `#[repr(..)]` attributes, so a user-supplied `#[repr(align(N))]` is merged in. All fields are
// `Portable`, the declaration is accepted, `Portable` is implemented - but the type has alignment 8
// and 7 bytes of padding.
// ---------------------------------------------------------------------------------------------

#[flat(portable = true)]
#[repr(align(8))]
struct OverAligned {
    a: u8,
}

#[test]
fn f1_portable_sized_struct_with_repr_align_is_not_align_1() {
    assert_portable::<OverAligned>();
    // C17: alignment 1 ...
    assert_eq!(align_of::<OverAligned>(), 1, "portable type must have alignment 1");
    assert_eq!(<OverAligned as FlatBase>::ALIGN, 1);
    // ... and no padding: the image must be exactly the one field byte.
    assert_eq!(size_of::<OverAligned>(), 1, "portable type must not contain padding");
}

// Same for an unsized portable struct. Here it is worse: `ALIGN` is computed from the fields only
// (the generated `..AlignAs` struct does not carry the user's repr), so the library believes the
// type has alignment 1 while the real Rust type has alignment 4. `from_bytes` therefore accepts any
// address ("can be mapped at any address") and hands out a `&OverAlignedUnsized` that is misaligned
// for its type (undefined behaviour). The test maps it at an 8-aligned address only, so the test
// itself stays sound, and compares the two alignments.
#[flat(sized = false, portable = true)]
#[repr(align(4))]
struct OverAlignedUnsized {
    a: u8,
    v: FlatVec<u8, u8>,
}

#[test]
fn f1_portable_unsized_struct_with_repr_align_lies_about_align() {
    assert_portable::<OverAlignedUnsized>();
    let mut mem = AlignedBytes::new(8, 8);
    mem.fill(0);
    let x = OverAlignedUnsized::from_bytes(&mem).unwrap();
    // C17: alignment 1, and FlatBase::ALIGN has to be the alignment of the type.
    assert_eq!(<OverAlignedUnsized as FlatBase>::ALIGN, 1);
    assert_eq!(
        align_of_val(x),
        <OverAlignedUnsized as FlatBase>::ALIGN,
        "real alignment of the portable type differs from ALIGN (from_bytes at odd addresses yields misaligned &Self)"
    );
}

// ---------------------------------------------------------------------------------------------
// F2. C17, clauses "its encoding is ... the concatenation, in declaration order, of tag, fields ..."
//     and "It can be mapped at any address and its bytes equal the reference serialisation".
//
// Explicit discriminants are kept by the macro (`#[repr(u8)]` / `#[repr(C, u8)]` + the item as
// written) but tag validation is `tag < number_of_variants` and the generated `..Tag` enum is
// numbered 0..n. So the image of a value of such a portable enum is rejected by `from_bytes`
// (it cannot be mapped at ANY address), while bytes that are no discriminant at all are accepted.
// ---------------------------------------------------------------------------------------------

#[flat(portable = true)]
#[derive(Clone, Copy, Debug, PartialEq, Eq)]
enum ExplicitCLike {
    A = 5,
    B = 9,
}

#[flat(portable = true)]
#[derive(Clone, Copy, Debug, PartialEq, Eq)]
enum ExplicitWithData {
    A(u8) = 5,
    B(le::U16) = 9,
}

#[test]
fn f2_portable_c_like_enum_with_explicit_discriminants_does_not_roundtrip() {
    assert_portable::<ExplicitCLike>();
    let value = ExplicitCLike::A;
    let image = value.as_bytes().to_vec();
    assert_eq!(image, [5]);
    // The image of a valid value must be mappable again.
    assert_eq!(
        ExplicitCLike::from_bytes(&image).map(|x| *x),
        Ok(ExplicitCLike::A),
        "image of a valid portable enum value is rejected"
    );
}

#[test]
fn f2_portable_c_like_enum_accepts_a_byte_that_is_no_discriminant() {
    // 1 is not a discriminant of `ExplicitCLike` (only 5 and 9 are), a reference to it would be UB.
    // (Only `validate` is called, nothing is dereferenced.)
    assert!(
        ExplicitCLike::validate(&[1]).is_err(),
        "byte 1 is accepted as a valid ExplicitCLike although the discriminants are 5 and 9"
    );
}

#[test]
fn f2_portable_data_enum_with_explicit_discriminants_does_not_roundtrip() {
    assert_portable::<ExplicitWithData>();
    let mut image = [0u8; 3];
    ExplicitWithData::new_in_place(&mut image, ExplicitWithData::B(le::U16::from(0x0201))).unwrap();
    assert_eq!(image, [9, 1, 2]);
    assert_eq!(
        ExplicitWithData::from_bytes(&image).map(|x| *x),
        Ok(ExplicitWithData::B(le::U16::from(0x0201))),
        "image of a valid portable enum value is rejected"
    );
}

// ---------------------------------------------------------------------------------------------
// F3. C17, clause "no padding anywhere, so its encoding is a pure function of its content"
//     (container of portable items with a portable length type: FlexVec<FlatVec<u8, u8>, le::U16>).
//
// When a second item is pushed, the first one is "sealed": its offset slot gets
// OFFSET_SIZE + size_at_that_moment. If the sealed item later shrinks (any `&mut T` handed out by
// `iter_mut` allows that), the offset is not updated, so dead bytes appear between the items: the
// same content now has a different image and a different `size()` than a freshly built value.
// ---------------------------------------------------------------------------------------------

type Inner = FlatVec<u8, u8>;
type Flex = FlexVec<Inner, le::U16>;

fn content(v: &Flex) -> Vec<Vec<u8>> {
    v.iter().map(|x| x.as_slice().to_vec()).collect()
}

#[test]
fn f3_flexvec_image_is_not_a_function_of_content_after_item_shrinks() {
    assert_portable::<Flex>();
    assert_eq!(<Flex as FlatBase>::ALIGN, 1);

    // [[1, 2, 3], [9]] and then pop the 3.
    let mut mem_a = [0u8; 32];
    let a = Flex::default_in_place(&mut mem_a).unwrap();
    a.push(flat_vec![1u8, 2, 3]).unwrap();
    a.push(flat_vec![9u8]).unwrap();
    assert_eq!(a.iter_mut().next().unwrap().pop(), Some(3));

    // [[1, 2], [9]] built directly.
    let mut mem_b = [0u8; 32];
    let b = Flex::default_in_place(&mut mem_b).unwrap();
    b.push(flat_vec![1u8, 2]).unwrap();
    b.push(flat_vec![9u8]).unwrap();

    assert_eq!(content(a), content(b));
    assert_eq!(content(a), vec![vec![1, 2], vec![9]]);

    // Reference serialisation of [[1,2],[9]]: [off=5][len=2][1,2] [off=MAX][len=1][9]
    let reference = [5u8, 0, 2, 1, 2, 0xff, 0xff, 1, 9];
    assert_eq!(&b.as_bytes()[..b.size()], &reference);

    // Same content => same size and same image.
    assert_eq!(a.size(), b.size(), "same content, different size (a has a dead byte inside)");
    assert_eq!(&a.as_bytes()[..a.size()], &reference);
}

// ---------------------------------------------------------------------------------------------
// F4. C17, clauses "its encoding is a pure function of its content" / "its bytes equal the reference
//     serialisation of the same content", quantified over "every value of it".
//
// FlexVec documents and `from_bytes` accepts TWO chain forms: zero terminated
// `[next0][data0][next1][data1][0]` and `[next0][data0][L::MAX][data1..]`. Both are values of the same
// portable type with the same content, but with different images and different `size()`. (The
// library's own operations always produce the second form, so whatever the reference serialisation
// is, a value obtained with `from_bytes` from the other form contradicts it.)
// ---------------------------------------------------------------------------------------------

#[test]
fn f4_flexvec_two_chain_forms_same_content_different_image() {
    type V = FlexVec<le::U16, u8>;
    assert_portable::<V>();

    // zero terminated form: [3][0x34 0x12][3][0x78 0x56][0]
    let zero_terminated = [3u8, 0x34, 0x12, 3, 0x78, 0x56, 0];
    // L::MAX form:          [3][0x34 0x12][255][0x78 0x56]
    let max_marked = [3u8, 0x34, 0x12, 0xff, 0x78, 0x56];

    let a = V::from_bytes(&zero_terminated).unwrap();
    let b = V::from_bytes(&max_marked).unwrap();
    let ca: Vec<u16> = a.iter().map(|x| u16::from(*x)).collect();
    let cb: Vec<u16> = b.iter().map(|x| u16::from(*x)).collect();
    assert_eq!(ca, [0x1234, 0x5678]);
    assert_eq!(ca, cb);

    // What the library itself builds for this content:
    let mut mem = [0u8; 16];
    let c = V::default_in_place(&mut mem).unwrap();
    c.push(le::U16::from(0x1234)).unwrap();
    c.push(le::U16::from(0x5678)).unwrap();
    assert_eq!(&c.as_bytes()[..c.size()], &max_marked);

    // Same content => same size and same image.
    assert_eq!(a.size(), b.size(), "same content, different size");
    assert_eq!(&a.as_bytes()[..a.size()], &b.as_bytes()[..b.size()]);
}
