//! Audit demos for properties C04 / C05.
//!
//! Every test in this file FAILS (panics) on the unmodified library.
//!
//! All three have one root cause: `u128` satisfies `L: Flat + Length` (so it is an admissible length / offset
//! type of `FlatVec`, `FlatString` and `FlexVec`, and the layout constants for it are computed fine:
//! ALIGN = 16, data offset = 16), but the code converts `L::max_value()` (and stored lengths / offsets)
//! with `to_usize().unwrap()`, which is `None` for `u128::MAX` on a 64-bit target (the same happens with
//! `u64` on a 32-bit target).
//!
//! Contradicted clause (C05): "For every valid value, size() equals the reference extent of its content ...
//! and is sufficient: mapping only the first size() bytes again succeeds and yields the same content and the
//! same size()", quantified over "every flat type shape" and "every value reachable by construction followed by
//! any sequence of in-place mutations".

use flatty::{prelude::*, AlignedBytes, FlatString, FlatVec, FlexVec};

/// C05, clause "mapping only the first size() bytes again succeeds".
///
/// `FlatVec<u8, u128>` can be constructed (the `Empty` emplacer never asks for the capacity) and its `size()` is
/// the expected 16, but mapping those 16 bytes (or the whole original buffer) again does not succeed:
/// `FlatVec::validate_unchecked` calls `capacity()`, which does `u128::MAX.to_usize().unwrap()` and panics.
#[test]
fn c05_flat_vec_u128_length_cannot_be_mapped_again() {
    type V = FlatVec<u8, u128>;
    assert_eq!(V::ALIGN, 16);
    assert_eq!(V::MIN_SIZE, 16);

    let mut mem = AlignedBytes::new(64, 16);
    let size = {
        let v = V::default_in_place(&mut mem).unwrap();
        assert_eq!(v.len(), 0);
        v.size()
    };
    // Reference extent: 16 bytes of length, no items.
    assert_eq!(size, 16);

    // The property demands that this succeeds and yields an empty vector of size 16. It panics instead.
    let again = V::from_bytes(&mem[..size]).expect("mapping the first size() bytes must succeed");
    assert_eq!(again.len(), 0);
    assert_eq!(again.size(), size);
}

/// Same as above for `FlatString<u128>`.
#[test]
fn c05_flat_string_u128_length_cannot_be_mapped_again() {
    type S = FlatString<u128>;
    assert_eq!(S::ALIGN, 16);
    assert_eq!(S::MIN_SIZE, 16);

    let mut mem = AlignedBytes::new(64, 16);
    let size = S::default_in_place(&mut mem).unwrap().size();
    assert_eq!(size, 16);

    let again = S::from_bytes(&mem[..size]).expect("mapping the first size() bytes must succeed");
    assert_eq!(again.len(), 0);
    assert_eq!(again.size(), size);
}

/// C05, clause "for every valid value, size() equals the reference extent of its content".
///
/// A `FlexVec<u8, u128>` is constructed empty and one item is pushed (both succeed). The value is reachable by
/// construction + push, but `size()` (and `len()`, `iter()`, `from_bytes`) panics in `flex.rs` `DataIter::next`
/// on `x.to_usize().unwrap()` / `L::max_value().to_usize().unwrap()`, because the offset slot of the last item holds
/// the documented `L::MAX` marker, which does not fit into `usize`.
#[test]
fn c05_flex_vec_u128_offsets_size_panics() {
    type F = FlexVec<u8, u128>;
    assert_eq!(F::ALIGN, 16);
    assert_eq!(F::MIN_SIZE, 16);

    let mut mem = AlignedBytes::new(128, 16);
    let f = F::default_in_place(&mut mem).unwrap();
    assert_eq!(f.size(), 16);
    assert_eq!(*f.push(7u8).unwrap(), 7);

    // Reference extent: offset slot (16) + one u8 item rounded up to the alignment (16).
    let size = f.size(); // panics
    assert_eq!(size, 32);
    let again = F::from_bytes(&mem[..size]).expect("mapping the first size() bytes must succeed");
    assert_eq!(again.iter().copied().collect::<Vec<_>>(), vec![7]);
}
