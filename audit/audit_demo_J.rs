//! Audit demo for C18 / C20.
//!
//! With the emplacers shipped by the library no counterexample to C18 or C20 was found
//! (see findings.txt and explored_passing.rs). The only failing scenario needs a
//! user-written `Emplacer` that reports an error (the `Emplacer` trait is public and
//! every library emplacer is allowed to fail, so this is legal use of the public API).
//! It has the same root cause as the already known behaviour (1) - the enum
//! initializer writes the tag of the new variant before the field emplacers have
//! succeeded - but is reached without any "minimum-size check of a nested unsized
//! enum/struct", so it is listed as a separate, low-confidence finding.
#![allow(dead_code)]
use flatty::{flat, flat_vec, prelude::*, AlignedBytes, Emplacer, Error, FlatVec};

#[flat(sized = false, default = true)]
enum E1 {
    #[default]
    A,
    B(u8, u16),
    C { offset: u32, bytes: FlatVec<u8, u16> },
}

/// An emplacer that always refuses (e.g. a source that turned out to be unavailable).
struct Refuse;
unsafe impl<T: Flat + ?Sized> Emplacer<T> for Refuse {
    unsafe fn emplace_unchecked(self, _: &mut [u8]) -> Result<&mut T, Error> {
        Err(Error {
            kind: flatty::error::ErrorKind::Other,
            pos: 0,
        })
    }
}

/// C18, first sentence: "If assign_in_place returns an error, the target is still a valid
/// value of its type: its bytes pass validation ...".
///
/// Target: E1::B(0xff, 0xffff) in a 16 byte buffer. Replacement: variant C whose *last*
/// field emplacer fails. The tag is already switched to C and `offset` is written, the
/// bytes of the FlatVec<u8, u16> are the old ones (len = 0xffff > capacity 6).
#[test]
fn c18_failing_last_field_emplacer_leaves_invalid_enum() {
    let mut mem = AlignedBytes::new(16, 4);
    mem.fill(0xff);
    let e = E1::new_in_place(&mut mem, E1InitB(0xff, 0xffff)).unwrap();
    let res = e.assign_in_place(E1InitC { offset: 1u32, bytes: Refuse });
    assert!(res.is_err());
    // C18: the target must still validate.
    assert_eq!(E1::validate(&mem), Ok(()), "target is invalid after a failed assign_in_place");
}

/// Same clause, the failing emplacer belongs to the *first* (sized) field: nothing but the
/// tag has been written, all fields of variant C are stale bytes of variant B.
#[test]
fn c18_failing_first_field_emplacer_leaves_invalid_enum() {
    let mut mem = AlignedBytes::new(16, 4);
    mem.fill(0xff);
    let e = E1::new_in_place(&mut mem, E1InitB(0xff, 0xffff)).unwrap();
    let res = e.assign_in_place(E1InitC { offset: Refuse, bytes: flat_vec![] });
    assert!(res.is_err());
    assert_eq!(E1::validate(&mem), Ok(()), "target is invalid after a failed assign_in_place");
}
