//! Audit counterexamples for properties C03 / C15.
//! Every test in this file FAILS on the unmodified library.
#![allow(dead_code)]

use flatty::{flat, flat_vec, flex, prelude::*, vec, AlignedBytes, FlatVec, FlexVec};
use std::panic::{catch_unwind, AssertUnwindSafe};

fn garbage(n: usize, align: usize) -> AlignedBytes {
    let mut b = AlignedBytes::new(n, align);
    for (i, x) in b.iter_mut().enumerate() {
        *x = 0xA5u8.wrapping_add((i as u8).wrapping_mul(37)) | 0x80;
    }
    b
}

// ---------------------------------------------------------------------------------------------
// Finding 1
//
// C15, clause "an aligned buffer that can hold the content is accepted [and then satisfies C03]".
//
// `FlexVec<FlatVec<u8, u16>, u8>` with ONE item of 300 bytes in a 1024-byte aligned buffer.
// The content is representable: it is the second documented chain form `[L::MAX][data..]`
// (the last item's slot holds `L::MAX` and the item owns the rest), and `push` builds exactly
// this image, which validates and reads back.  But `flex::FromIterator` insists that the offset
// of EVERY item, including the last one, is `< L::MAX` and answers `InsufficientSize`
// although 1024 bytes are far more than the 304 that are needed.
// ---------------------------------------------------------------------------------------------
#[test]
fn c15_flex_from_iterator_refuses_last_item_that_the_buffer_can_hold() {
    type V = FlexVec<FlatVec<u8, u16>, u8>;
    let content = || vec::FromIterator((0..300usize).map(|x| x as u8));

    // The same content placed with `push`: accepted, valid, reads back.
    let mut mem_a = garbage(1024, 2);
    {
        let v = V::default_in_place(&mut mem_a).unwrap();
        v.push(content()).unwrap();
    }
    let a = V::from_bytes(&mem_a).expect("image built by push is valid");
    assert_eq!(a.len(), 1);
    assert_eq!(a.iter().next().unwrap().len(), 300);
    assert_eq!(a.size(), 304);

    // The same content, same buffer size and alignment, through the emplacer.
    let mut mem_b = garbage(1024, 2);
    let r = V::new_in_place(&mut mem_b, flex::FromIterator::new([content()])).map(|v| v.len());
    assert_eq!(
        r.map_err(|e| e.kind),
        Ok(1),
        "C15: a 1024-byte aligned buffer can hold a single 300-byte item (needs 304 bytes) but emplacement is refused"
    );
}

/// Same as above, but the big item is the last of two (so the chain really has a sealed first slot).
#[test]
fn c15_flex_from_iterator_refuses_big_last_item_after_small_one() {
    type V = FlexVec<FlatVec<u8, u8>, u8>;
    let items = || [vec::FromIterator(0..3u8), vec::FromIterator(0..253u8)];

    let mut mem_a = garbage(512, 1);
    {
        let v = V::default_in_place(&mut mem_a).unwrap();
        for it in items() {
            v.push(it).unwrap();
        }
    }
    let a = V::from_bytes(&mem_a).expect("image built by push is valid");
    assert_eq!(a.iter().map(|x| x.len()).collect::<Vec<_>>(), vec![3, 253]);

    let mut mem_b = garbage(512, 1);
    let r = V::new_in_place(&mut mem_b, flex::FromIterator::new(items())).map(|v| v.len());
    // last item: offset_size(1) + size(1 + 253) == 255 == u8::MAX  ->  refused
    assert_eq!(r.map_err(|e| e.kind), Ok(2), "C15: buffer can hold the content, but it is refused");
}

// ---------------------------------------------------------------------------------------------
// Finding 2
//
// C15 "never panics" and C03 "reads back / bytes validate", type shape: length type `u128`.
// `u128` implements `Flat + Length`, so `FlatVec<T, u128>`, `FlatString<u128>`, `FlexVec<T, u128>`
// are accepted type definitions.
//  * `FlatVec<u8, u128>::new_in_place` (also default_in_place, validate) panics: the capacity is
//    computed with `L::max_value().to_usize().unwrap()`.
//  * `FlexVec<u8, u128>::new_in_place(FromIterator)` succeeds, but every read
//    (`len`, `iter`, `size`, `validate`, `from_bytes`) of the non-empty result panics in
//    containers/src/flex.rs (`L::max_value().to_usize().unwrap()` / `x.to_usize().unwrap()`).
// ---------------------------------------------------------------------------------------------
#[test]
fn c15_flat_vec_with_u128_length_panics_on_emplacement() {
    let mut mem = garbage(256, 16);
    let r = catch_unwind(AssertUnwindSafe(|| {
        FlatVec::<u8, u128>::new_in_place(&mut mem, flat_vec![1u8, 2, 3])
            .map(|v| v.as_slice().to_vec())
            .map_err(|e| e.kind)
    }));
    assert!(r.is_ok(), "C15: new_in_place must never panic");
    assert_eq!(r.unwrap(), Ok(vec![1, 2, 3]));
}

#[test]
fn c03_flex_vec_with_u128_length_cannot_be_read_back() {
    let mut mem = garbage(256, 16);
    let r = catch_unwind(AssertUnwindSafe(|| {
        FlexVec::<u8, u128>::new_in_place(&mut mem, flex::FromIterator::new([1u8, 2])).map(|_| ()).map_err(|e| e.kind)
    }));
    assert_eq!(r.ok(), Some(Ok(())), "emplacement itself is accepted");

    let r = catch_unwind(AssertUnwindSafe(|| FlexVec::<u8, u128>::validate(&mem).map_err(|e| e.kind)));
    assert!(r.is_ok(), "C03: bytes of an emplaced value must pass validation (validation panics)");
    let r = catch_unwind(AssertUnwindSafe(|| {
        FlexVec::<u8, u128>::from_bytes(&mem).map(|v| v.iter().copied().collect::<Vec<_>>()).map_err(|e| e.kind)
    }));
    assert_eq!(r.ok(), Some(Ok(vec![1, 2])), "C03: value must read back");
}

// ---------------------------------------------------------------------------------------------
// Finding 3
//
// C03, clause "whose bytes pass validation", type shape: enum with explicit discriminants.
// `#[flat]` accepts them (the attributes/discriminants are passed through to rustc), the value is
// written with its real discriminant, but the generated validator only checks `tag < variant_count`
// (and, for data-carrying enums, the generated `*Tag` enum ignores the discriminants).
// ---------------------------------------------------------------------------------------------
#[flat]
#[derive(Clone, Copy, Debug, PartialEq)]
enum Disc {
    A = 1,
    B = 5,
}

#[flat]
#[derive(Clone, Copy, Debug, PartialEq)]
enum DiscData {
    A(u8) = 3,
    B = 7,
}

#[test]
fn c03_c_like_enum_with_explicit_discriminants_does_not_validate_after_emplacement() {
    let mut mem = garbage(4, 1);
    let v = Disc::new_in_place(&mut mem, Disc::B).unwrap();
    assert_eq!(*v, Disc::B);
    assert_eq!(mem[0], 5);
    assert_eq!(
        Disc::from_bytes(&mem).map(|x| *x).map_err(|e| e.kind),
        Ok(Disc::B),
        "C03: bytes of an emplaced value must pass validation"
    );
}

#[test]
fn c03_data_enum_with_explicit_discriminants_does_not_validate_after_emplacement() {
    let mut mem = garbage(4, 1);
    let v = DiscData::new_in_place(&mut mem, DiscData::A(9)).unwrap();
    assert_eq!(*v, DiscData::A(9));
    assert_eq!(
        DiscData::from_bytes(&mem).map(|x| *x).map_err(|e| e.kind),
        Ok(DiscData::A(9)),
        "C03: bytes of an emplaced value must pass validation"
    );
}

// ---------------------------------------------------------------------------------------------
// Finding 4 (LOW confidence, same family as finding 3: foreign layout attributes are passed through)
//
// C03, clause "whose bytes pass validation", type shape: sized `#[flat]` struct that additionally
// carries `#[repr(packed)]`.  The macro emits `#[repr(C)] #[repr(packed)] struct ..`, SIZE/ALIGN come
// from rustc (26 / 1) but the generated validator walks the fields with their natural alignment,
// so it looks for the tag of `e` at offset 8 instead of 1.
// ---------------------------------------------------------------------------------------------
#[flat(tag_type = "u16")]
#[derive(Clone, Copy, Debug, PartialEq)]
enum Inner {
    A,
    B(u8, u64),
    C { x: u16 },
}

#[flat]
#[repr(packed)]
#[derive(Clone, Copy, Debug, PartialEq)]
struct Packed {
    a: u8,
    e: Inner,
}

#[test]
fn c03_packed_struct_does_not_validate_after_emplacement() {
    let mut mem = garbage(64, 8);
    let value = Packed { a: 1, e: Inner::C { x: 7 } };
    let v = Packed::new_in_place(&mut mem[..Packed::SIZE], value).unwrap();
    assert_eq!({ *v }, value);
    assert_eq!(
        Packed::from_bytes(&mem[..Packed::SIZE]).map(|x| *x).map_err(|e| e.kind),
        Ok(value),
        "C03: bytes of an emplaced value must pass validation"
    );
}
