//! AUDIT of C03 / C20 — demonstrations.
//!
//! RESULT: no input / buffer / operation sequence was found for which C03 or C20 is violated AT RUN TIME
//! (see `audit_probes.rs`: 30 probe tests, all passing, and /tmp/outa_L/findings.txt).
//!
//! The only deviations found are type definitions / emplacer spellings that the library REJECTS AT COMPILE TIME.
//! They cannot "fail" as tests without breaking the build of the whole test crate, so they are gated:
//!
//!   cd /tmp/wta_L && RUSTFLAGS="--cfg audit_compile_fail" CARGO_TARGET_DIR=/tmp/wta_L/target \
//!       cargo test -p flatty-tests --offline audit_demo
//!
//! fails with exactly three errors (E0599, E0107, E0425), one per item below.
//! Without the cfg this module compiles to one trivially passing test.
#![allow(dead_code, unused_imports, unexpected_cfgs)]
use flatty::{flat, flat_vec, prelude::*, AlignedBytes, FlatVec, FlexVec};

/// L1 — C20, "for every type definition with default = true ... every field's default for structs".
/// An unsized TUPLE struct with `default = true` does not compile: the generated `FlatDefault` impl builds the
/// emplacer as `Self::DefaultEmplacer(..)`, and a tuple-struct constructor cannot be named through an associated
/// type (macros/src/items/init.rs, `impl_default`, `Fields::Unnamed` arm).
/// error[E0599]: no associated item named `DefaultEmplacer` found for struct `T1`.
/// (The same definition without `default = true` works, see `audit_probes::p06_*`.)
#[cfg(audit_compile_fail)]
mod l1 {
    use super::*;
    #[flat(sized = false, default = true)]
    struct T1(u8, FlatVec<u8, u8>);

    #[test]
    fn tuple_struct_default() {
        let mut mem = AlignedBytes::new(8, 1);
        let t = T1::default_in_place(&mut mem).unwrap();
        assert_eq!((t.0, t.1.len(), t.size()), (0, 0, 2));
    }
}

/// L2 — C20, "the variant marked #[default] for enums" / hint "enums without a unit variant".
/// An unsized enum whose `#[default]` variant has fields does not compile: `impl_default` names the variant
/// emplacer `E3InitC` without its generic arguments and uses it as a unit value (macros/src/items/init.rs).
/// error[E0107]: missing generics for struct `E3InitC`.
/// Consequently an unsized enum WITHOUT a unit variant can never have `default = true`.
#[cfg(audit_compile_fail)]
mod l2 {
    use super::*;
    #[flat(sized = false, default = true)]
    enum E3 {
        B(u8),
        #[default]
        C(FlatVec<u8, u8>),
    }

    #[test]
    fn non_unit_default_variant() {
        let mut mem = AlignedBytes::new(8, 1);
        let e = E3::default_in_place(&mut mem).unwrap();
        assert!(matches!(e.as_ref(), E3Ref::C(v) if v.is_empty()));
        assert_eq!(e.size(), 2);
    }
}

/// L3 — C03, "nested emplacers" (the `flex_vec!` macro is not in the literal list of C03, so this is an observation).
/// `flex_vec!` expands to `$crate::flex::FromIter(..)`, which does not exist (the type is `flex::FromIterator`, built
/// with `FromIterator::new`): every use of the macro is a compile error (containers/src/flex.rs, macro `flex_vec`).
/// error[E0425]: cannot find function, tuple struct or tuple variant `FromIter` in module `$crate::flex`.
#[cfg(audit_compile_fail)]
mod l3 {
    use super::*;
    use flatty::flex_vec;

    #[test]
    fn flex_vec_macro() {
        let mut mem = AlignedBytes::new(64, 4);
        let v = FlexVec::<FlatVec<u8, u8>, u8>::new_in_place(&mut mem, flex_vec![flat_vec![1u8, 2], flat_vec![3u8, 4]]).unwrap();
        assert_eq!(v.len(), 2);
    }
}

#[test]
fn no_runtime_counterexample_found() {}
