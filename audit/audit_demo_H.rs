//! Audit of C12 / C13 (FlexVec, FlatVec, FlatString). Only tests that FAIL on the unmodified code are kept here.
//! The model-based harness and the directed probes that PASS are in /tmp/outa_H/audit_probes_full.rs.
#![allow(dead_code)]
use flatty::{flat, portable::le, prelude::*, AlignedBytes, FlatVec, FlexVec};

#[flat]
#[derive(Clone, Copy, PartialEq, Debug, Default)]
#[repr(align(256))]
struct Big {
    x: u8,
}

/// FINDING 1 (C12, clauses "reports the length and yields the items" and "the bytes validate and re-map
/// to the same sequence after every step"; quantifier "every item type, every offset type (u8..u64)").
///
/// Item type with ALIGN = 256 and offset type u8: OFFSET_SIZE = max(L::SIZE, T::ALIGN) = 256 > u8::MAX = 255.
/// `push` succeeds (returns Ok and writes the L::MAX marker), but the chain walker rejects every slot whose
/// stored offset is smaller than OFFSET_SIZE -- and the L::MAX marker (255) is smaller than 256. So after a
/// *successful* push the bytes do not validate any more and len()/iter()/size() panic on `unwrap`.
/// (flex::FromIterator refuses the same item with InsufficientSize, so the two paths also disagree.)
#[test]
fn f1_flexvec_u8_item_align_256_push_ok_but_vector_invalid() {
    assert_eq!(<Big as FlatBase>::ALIGN, 256);
    let mut mem = AlignedBytes::new(2048, 256);
    let v = FlexVec::<Big, u8>::default_in_place(&mut mem).unwrap();
    assert_eq!(v.len(), 0);
    let r = v.push(Big { x: 7 }).map(|b| *b);
    match r {
        Ok(_) => {
            // The push was accepted: C12 demands len 1, the item, and valid bytes.
            let v = FlexVec::<Big, u8>::from_bytes(&mem).expect("C12: bytes must validate after a successful push");
            assert_eq!(v.len(), 1);
            assert_eq!(v.iter().next().unwrap().x, 7);
        }
        Err(_) => {
            // Refusing would have been acceptable (C13): the vector must then be unchanged.
            let v = FlexVec::<Big, u8>::from_bytes(&mem).unwrap();
            assert_eq!(v.len(), 0);
        }
    }
}

/// FINDING 1, second symptom: the same state makes the safe accessor `len()` panic
/// (`called Result::unwrap() on an Err value: InsufficientSize`).
#[test]
fn f1b_flexvec_u8_item_align_256_len_panics() {
    let mut mem = AlignedBytes::new(2048, 256);
    let v = FlexVec::<Big, u8>::default_in_place(&mut mem).unwrap();
    v.push_default().unwrap().x = 1;
    assert_eq!(v.len(), 1); // panics inside len()
}

#[flat]
#[derive(Clone, Copy, PartialEq, Debug, Default)]
#[repr(align(65536))]
struct Huge {
    x: u8,
}

/// FINDING 1, same defect for u16 and for a portable offset type (le::U16): ALIGN = 65536 > u16::MAX.
#[test]
fn f1c_flexvec_u16_and_portable_u16_item_align_65536() {
    let mut mem = AlignedBytes::new(65536 * 4, 65536);
    let v = FlexVec::<Huge, u16>::default_in_place(&mut mem).unwrap();
    v.push_default().unwrap().x = 9; // accepted
    let r = FlexVec::<Huge, u16>::from_bytes(&mem).map(|v| v.len());
    let v = FlexVec::<Huge, le::U16>::default_in_place(&mut mem).unwrap();
    v.push_default().unwrap().x = 9; // accepted
    let r2 = FlexVec::<Huge, le::U16>::from_bytes(&mem).map(|v| v.len());
    assert_eq!(r, Ok(1), "C12: u16");
    assert_eq!(r2, Ok(1), "C12: le::U16");
}

/// FINDING 2 (BORDERLINE, low confidence; C12 "reports the length and yields the items of the corresponding
/// abstract sequence ... from every reachable state", hint "the two documented FlexVec chain forms").
///
/// The first documented form ([next0][data0][next1][data1][0]) does not exclude next_i == L::MAX, but the
/// reader treats L::MAX as the "last item owns the rest" marker of the second form. Bytes that are a
/// well-formed two item chain in form 1, with the first offset legitimately equal to 255 (u8), are accepted
/// by from_bytes but are reported as ONE item (the second item is silently swallowed into the first item's
/// spare capacity; size() reports 255 although the chain occupies 259 bytes).
/// The library itself never writes such an offset (push/FromIterator refuse sealed offsets >= L::MAX), so
/// this state is only reachable through from_bytes of hand/peer-built bytes.
#[test]
fn f2_zero_terminated_form_offset_equal_to_max_is_read_as_last() {
    let mut mem = AlignedBytes::new(300, 1);
    for b in mem.iter_mut() {
        *b = 0;
    }
    // item 0: FlatVec<u8,u8> with 253 elements: 1 (offset slot) + 1 (len) + 253 = 255 = next0
    mem[0] = 255;
    mem[1] = 253;
    // item 1 at 255: [next=3][len=1][7], then the zero terminator at 258
    mem[255] = 3;
    mem[256] = 1;
    mem[257] = 7;
    mem[258] = 0;
    let v = FlexVec::<FlatVec<u8, u8>, u8>::from_bytes(&mem).unwrap();
    assert_eq!(v.len(), 2, "form 1 chain of two items is reported as {} item(s), size() = {}", v.len(), v.size());
}

/// OBSERVATION (outside the stated quantifier "offset type u8..u64, portable"; informational only):
/// u128 satisfies `Flat + Length`, so FlexVec<_, u128> compiles, but after the first push every walk panics
/// at flex.rs:115 (`x.to_usize().unwrap()` on the stored u128::MAX marker).
#[test]
fn o1_u128_offset_type_panics_after_first_push() {
    let mut mem = AlignedBytes::new(64, 16);
    let v = FlexVec::<u8, u128>::default_in_place(&mut mem).unwrap();
    v.push(1).unwrap();
    assert_eq!(v.len(), 1);
}
