#![allow(dead_code)]
//! Audit counterexamples (each test FAILS on the unmodified library).

use flatty::prelude::*;
use std::{sync::mpsc, thread, time::Duration};

/// C01 ("Validation is total ... always terminates ... never ... loops without bound"), quantified
/// "for every flat type expressible with the library (primitives, arrays, ...)" and "every byte string of
/// every length (including 0)".
///
/// `[(); usize::MAX]` is a legal flat type (`()` is Flat, `[T; N]` is Flat for every `N`); it is zero-sized,
/// so the empty slice is a complete image of it.  `<[T; N] as FlatValidate>::validate_unchecked` walks all
/// `N` elements even when `T::SIZE == 0`, i.e. 2^64-1 iterations over zero bytes of input: the call does not
/// return (FlatVec got a special case for zero-sized items, the array impl did not).
/// The work is done in a helper thread so that the test itself is bounded.
#[test]
fn c01_zst_array_validation_does_not_terminate() {
    type Huge = [(); usize::MAX];
    assert_eq!(<Huge as FlatSized>::SIZE, 0);

    let (tx, rx) = mpsc::channel();
    thread::spawn(move || {
        let r = <Huge as FlatValidate>::validate(&[]).is_ok();
        let _ = tx.send(r);
    });
    match rx.recv_timeout(Duration::from_secs(10)) {
        Ok(ok) => assert!(ok),
        Err(_) => panic!("validate::<[(); usize::MAX]>(&[]) did not return within 10 s (0 bytes of input)"),
    }
}

/// Same root cause, reached from hostile INPUT rather than from the empty slice: C01 quantifies over
/// "FlatVec ... nested arbitrarily" and "every byte string".  `FlatVec<[(); usize::MAX], u8>` is a legal type;
/// the one-byte image `[0]` (empty vector) validates at once, the one-byte image `[1]` (one zero-sized
/// element, which needs no further bytes) sends `validate` into the 2^64-1 iteration element walk.
#[test]
fn c01_one_byte_input_hangs_flat_vec_of_zst_array() {
    use flatty::FlatVec;
    type V = FlatVec<[(); usize::MAX], u8>;

    assert!(V::validate(&[0u8]).is_ok());

    let (tx, rx) = mpsc::channel();
    thread::spawn(move || {
        let r = V::validate(&[1u8]).is_ok();
        let _ = tx.send(r);
    });
    match rx.recv_timeout(Duration::from_secs(10)) {
        Ok(ok) => assert!(ok),
        Err(_) => panic!("validate::<FlatVec<[(); usize::MAX], u8>>(&[1]) did not return within 10 s"),
    }
}
