#!/usr/bin/env python3
"""Enumerate the bounded grammar of #[flat] type shapes and emit Rust: the real items (through the
real macro) plus thin, mechanical `Node` glue.  Ids are canonical spec strings (stable)."""
import itertools, sys, os

TAG_SIZE = {"u8": 1, "u16": 2, "u32": 4}

# ---------------------------------------------------------------- type expressions
class T:
    sized = True
    default = True      # FlatDefault available
    portable = False
    def rust(self): raise NotImplementedError
    def spec(self): raise NotImplementedError

class Leaf(T):
    def __init__(self, rust, portable=False, default=True, spec=None):
        self._r = rust; self.portable = portable; self.default = default; self._s = spec or rust.replace(" ", "")
    def rust(self): return self._r
    def spec(self): return self._s

U8 = Leaf("u8", portable=True); I8 = Leaf("i8", portable=True)
U16 = Leaf("u16"); U32 = Leaf("u32"); U64 = Leaf("u64"); U128 = Leaf("u128")
I32 = Leaf("i32"); F32 = Leaf("f32"); F64 = Leaf("f64"); USIZE = Leaf("usize")
UNIT = Leaf("()", portable=True, spec="unit")
BOOL = Leaf("Bool", portable=True, spec="bool")
LE16 = Leaf("le::U16", True); LE32 = Leaf("le::U32", True); LE64 = Leaf("le::U64", True)
BE16 = Leaf("be::U16", True); BE32 = Leaf("be::U32", True); BE64 = Leaf("be::U64", True)
LEI32 = Leaf("le::I32", True); LEF32 = Leaf("le::F32", True); BEF64 = Leaf("be::F64", True)
I16 = Leaf("i16"); I64 = Leaf("i64"); I128 = Leaf("i128"); ISIZE = Leaf("isize")
LEI16 = Leaf("le::I16", True); BEI16 = Leaf("be::I16", True); BEI32 = Leaf("be::I32", True); LEI64 = Leaf("le::I64", True); BEI64 = Leaf("be::I64", True)
BEF32 = Leaf("be::F32", True); LEF64 = Leaf("le::F64", True)
LADDER = [U8, U16, U32, U64, U128]

class Arr(T):
    def __init__(self, e, n):
        self.e = e; self.n = n; self.portable = e.portable; self.default = e.default and n <= 32
    def rust(self): return "[%s; %d]" % (self.e.rust(), self.n)
    def spec(self): return "[%s;%d]" % (self.e.spec(), self.n)

class Vec(T):
    sized = False
    def __init__(self, e, l):
        self.e = e; self.l = l; self.portable = e.portable and l.portable and l is not U8 or (e.portable and l is U8)
        self.portable = e.portable and l.portable
    def rust(self): return "FlatVec<%s, %s>" % (self.e.rust(), self.l.rust())
    def spec(self): return "vec(%s,%s)" % (self.e.spec(), self.l.spec())

class Str(T):
    sized = False
    def __init__(self, l): self.l = l; self.portable = l.portable
    def rust(self): return "FlatString<%s>" % self.l.rust()
    def spec(self): return "str(%s)" % self.l.spec()

class Flex(T):
    sized = False
    def __init__(self, e, l): self.e = e; self.l = l; self.portable = e.portable and l.portable
    def rust(self): return "FlexVec<%s, %s>" % (self.e.rust(), self.l.rust())
    def spec(self): return "flex(%s,%s)" % (self.e.spec(), self.l.spec())

# ---------------------------------------------------------------- generated items
class Item(T):
    """A #[flat] item. kind in cenum | sstruct | senum | ustruct | uenum."""
    registry = {}   # spec -> item
    order = []
    def __init__(self):
        s = self.spec()
        assert s not in Item.registry, s
        self.ident = "%s%d" % (self.PREFIX, len([i for i in Item.order if i.PREFIX == self.PREFIX]))
        Item.registry[s] = self; Item.order.append(self)
    def rust(self): return self.ident

def get(cls, *a, **k):
    """memoised constructor"""
    probe = cls.__new__(cls); cls._init(probe, *a, **k)
    s = probe.spec()
    if s in Item.registry: return Item.registry[s]
    Item.__init__(probe)
    return probe

class CEnum(Item):
    PREFIX = "K"
    def _init(self, tag, count, dflt=0, discs=None):
        self.tag = tag; self.count = count; self.dflt = dflt; self.portable = (tag == "u8"); self.default = True
        # discs may name only some variants (None = implicit: previous + 1, as in Rust)
        self.written = discs
        if discs is not None:
            eff = []; nxt = 0
            for x in discs:
                v = nxt if x is None else x
                eff.append(v); nxt = v + 1
            discs = eff
        self.discs = discs
    def spec(self): return "cenum(%s,%d,d%d%s)" % (self.tag, self.count, self.dflt, "" if self.discs is None else ";=" + ".".join(("_" if w is None else "") + str(x) for x, w in zip(self.discs, self.written)))

class SStruct(Item):
    PREFIX = "P"
    def _init(self, fields, form="named", portable=None):
        self.fields = fields; self.form = form if fields else "unit"
        self.default = all(f.default for f in fields)
        self.portable = all(f.portable for f in fields) if portable is None else portable
    def spec(self): return "sstruct%s(%s)" % ({"named": "", "tuple": "_t", "unit": "_u"}[self.form], ",".join(f.spec() for f in self.fields))

class SEnum(Item):
    PREFIX = "Q"
    def _init(self, tag, variants, dflt=None, force_portable=False):
        # variants: list of (form, [types]); form in unit|tuple|named
        self.tag = tag; self.variants = variants; self.dflt = dflt; self.forced = force_portable
        self.default = dflt is not None
        self.portable = (tag == "u8" or force_portable) and all(f.portable for _, fs in variants for f in fs)
    def spec(self):
        vs = ["%s(%s)" % (form[0], ",".join(f.spec() for f in fs)) for form, fs in self.variants]
        return "senum(%s;%s;d%s%s)" % (self.tag, "|".join(vs), self.dflt, ";declared_portable" if self.forced else "")

class UStruct(Item):
    PREFIX = "U"; sized = False
    def _init(self, fields, form="named", sys=False):
        assert not fields[-1].sized and all(f.sized for f in fields[:-1])
        self.fields = fields; self.form = form
        # member of the systematic family (every ordered pair / triple of field layout classes in front of a tail):
        # swept by the layout and emplace engines only
        self.sys = sys
        # the macro's default impl does not compile for tuple-form unsized structs (not accepted => not in scope)
        self.default = all(f.default for f in fields) and form == "named"
        self.portable = all(f.portable for f in fields)
    def spec(self): return "ustruct%s(%s)%s" % ("" if self.form == "named" else "_t", ",".join(f.spec() for f in self.fields), ";sys" if self.sys else "")

class UEnum(Item):
    PREFIX = "W"; sized = False
    def _init(self, tag, variants, dflt=None, force_portable=False, discs=None, sys=False):
        self.sys = sys
        for form, fs in variants:
            assert all(f.sized for f in fs[:-1])
        self.tag = tag; self.variants = variants; self.dflt = dflt; self.forced = force_portable
        # explicit discriminants written in the declaration; for an UNSIZED enum the macro documents that the tag
        # is the variant index, so they change nothing in the reference
        self.discs = discs
        self.default = dflt is not None and all(f.default for _, fs in variants for f in fs)
        if dflt is not None: assert variants[dflt][0] == "unit"
        self.portable = (tag == "u8" or force_portable) and all(f.portable for _, fs in variants for f in fs)
    def spec(self):
        vs = ["%s(%s)" % (form[0], ",".join(f.spec() for f in fs)) for form, fs in self.variants]
        return "uenum(%s;%s;d%s%s%s)" % (self.tag, "|".join(vs), self.dflt, ";declared_portable" if self.forced else "", "" if self.discs is None else ";discriminants_ignored=" + ".".join(str(x) for x in self.discs)) + (";sys" if self.sys else "")

# ---------------------------------------------------------------- emission
def vname(i): return "V%d" % i
def fname(i): return "f%d" % i

def desc_of(t): return "<%s as Node>::desc()" % t.rust()

def flat_attr(item, sized, tag=None):
    a = []
    if not sized: a.append("sized = false")
    if tag: a.append('tag_type = "%s"' % tag)
    if item.portable: a.append("portable = true")
    if item.default: a.append("default = true")
    return "#[flat(%s)]" % ", ".join(a) if a else "#[flat]"

def default_glue(item, sized):
    pre = "    harness::impl_sized_info!();\n" if sized else ""
    pre += "    fn declared_portable() -> bool { %s }\n" % ("true" if item.portable else "false")
    if not item.default: return pre
    s = pre + "    fn try_default(bytes: &mut [u8]) -> Option<Result<&mut Self, Error>> { Some(Self::default_in_place(bytes)) }\n"
    s += "    harness::impl_flex_push_default!();\n"
    if sized:
        s += "    fn native_default_bytes() -> Option<Vec<u8>> { Some(sized_bytes(&<Self as Default>::default())) }\n"
    return s

def emit_cenum(it):
    vs = []
    dv = it.discs if it.discs is not None else list(range(it.count))
    for i in range(it.count):
        vs.append(("#[default] " if i == it.dflt else "") + vname(i) + ("" if (it.discs is None or it.written[i] is None) else " = %d" % it.discs[i]))
    arms = "".join("            %d => %s::%s,\n" % (dv[i], it.ident, vname(i)) for i in range(it.count))
    discs_rs = "None" if it.discs is None else "Some(vec![%s])" % ", ".join(str(x) for x in it.discs)
    valid_rs = " || ".join("raw as u128 == %d" % x for x in dv) if it.discs is not None else "(raw as usize) < %d" % it.count
    return f"""
{flat_attr(it, True, it.tag)}
#[derive(Clone, Copy, PartialEq, PartialOrd)]
pub enum {it.ident} {{ {", ".join(vs)} }}
impl Node for {it.ident} {{
    fn desc() -> Desc {{ Desc::CEnum {{ tag: {TAG_SIZE[it.tag]}, count: {it.count}, default: {it.dflt}, discs: {discs_rs} }} }}
    fn read(&self) -> Value {{ Value::Scalar(*self as {it.tag} as u128) }}
    unsafe fn emplace_value_unchecked<'a>(bytes: &'a mut [u8], v: &Value, _k: Kind) -> Result<&'a mut Self, Error> {{
        <Self as SizedNode>::from_value(v).emplace_unchecked(bytes)
    }}
    fn walk(&self, w: &mut Walk) {{
        w.obj(self, "cenum");
        let raw = unsafe {{ *(self as *const Self as *const {it.tag}) }};
        if !({valid_rs}) {{ w.problems.push(format!("c-like enum holds raw tag {{}}", raw)); }}
    }}
    fn apply(&mut self, path: &[usize], op: &Op) -> OpOut {{ sized_self_op(self, path, op) }}
{default_glue(it, True)}}}
impl SizedNode for {it.ident} {{
    fn from_value(v: &Value) -> Self {{
        match scalar(v) {{
{arms}            o => panic!("bad variant {{}}", o),
        }}
    }}
}}
"""

def struct_decl(it, sized):
    fs = it.fields
    if it.form == "unit":
        return "pub struct %s;" % it.ident
    if it.form == "tuple":
        return "pub struct %s(%s);" % (it.ident, ", ".join("pub " + f.rust() for f in fs))
    return "pub struct %s { %s }" % (it.ident, ", ".join("pub %s: %s" % (fname(i), f.rust()) for i, f in enumerate(fs)))

def facc(it, i):
    return "self.%s" % (str(i) if it.form == "tuple" else fname(i))

def emit_sstruct(it):
    fs = it.fields
    n = len(fs)
    descs = ", ".join(desc_of(f) for f in fs)
    reads = ", ".join("%s.read()" % facc(it, i) for i in range(n))
    walks = "".join("        %s.walk(w);\n" % facc(it, i) for i in range(n))
    applys = "".join("            Some((%d, r)) => %s.apply(r, op),\n" % (i, facc(it, i)) for i in range(n))
    probes = ", ".join("probe(&%s)" % facc(it, i) for i in range(n))
    if it.form == "unit":
        ctor = it.ident
    elif it.form == "tuple":
        ctor = "%s(%s)" % (it.ident, ", ".join("<%s as SizedNode>::from_value(&f[%d])" % (f.rust(), i) for i, f in enumerate(fs)))
    else:
        ctor = "%s { %s }" % (it.ident, ", ".join("%s: <%s as SizedNode>::from_value(&f[%d])" % (fname(i), f.rust(), i) for i, f in enumerate(fs)))
    return f"""
{flat_attr(it, True)}
#[derive(Clone, PartialEq, PartialOrd)]
{struct_decl(it, True)}
impl Node for {it.ident} {{
    fn desc() -> Desc {{ Desc::Struct {{ fields: vec![{descs}], sized: true }} }}
    fn read(&self) -> Value {{ Value::Struct(vec![{reads}]) }}
    unsafe fn emplace_value_unchecked<'a>(bytes: &'a mut [u8], v: &Value, _k: Kind) -> Result<&'a mut Self, Error> {{
        <Self as SizedNode>::from_value(v).emplace_unchecked(bytes)
    }}
    fn walk(&self, w: &mut Walk) {{
        w.obj(self, "sstruct");
{walks}    }}
    fn apply(&mut self, path: &[usize], op: &Op) -> OpOut {{
        match path.split_first() {{
            None => sized_self_op(self, path, op),
{applys}            _ => OpOut::BadPath,
        }}
    }}
    fn field_probes(&self) -> Vec<FieldProbe> {{ vec![{probes}] }}
{default_glue(it, True)}}}
impl SizedNode for {it.ident} {{
    #[allow(unused_variables)]
    fn from_value(v: &Value) -> Self {{ let f = fields(v); {ctor} }}
}}
"""

def variant_decl(form, fs, attrs=""):
    if form == "unit": return ""
    if form == "tuple": return "(%s)" % ", ".join(f.rust() for f in fs)
    return "{ %s }" % ", ".join("%s: %s" % (fname(i), f.rust()) for i, f in enumerate(fs))

def pat(form, n, prefix="b"):
    """pattern binding b0.. for a variant"""
    if form == "unit": return ""
    if form == "tuple": return "(%s)" % ", ".join("%s%d" % (prefix, i) for i in range(n))
    return "{ %s }" % ", ".join("%s: %s%d" % (fname(i), prefix, i) for i in range(n))

def emit_senum(it):
    vs = []
    for i, (form, fs) in enumerate(it.variants):
        vs.append(("#[default] " if i == it.dflt else "") + vname(i) + variant_decl(form, fs))
    vdesc = ", ".join("vec![%s]" % ", ".join(desc_of(f) for f in fs) for _, fs in it.variants)
    read_arms = walk_arms = apply_arms = probe_arms = from_arms = ""
    for i, (form, fs) in enumerate(it.variants):
        n = len(fs); p = pat(form, n)
        read_arms += "            %s::%s%s => Value::Enum(%d, vec![%s]),\n" % (it.ident, vname(i), p, i, ", ".join("b%d.read()" % j for j in range(n)))
        walk_arms += "            %s::%s%s => { %s }\n" % (it.ident, vname(i), p, " ".join("b%d.walk(w);" % j for j in range(n)))
        inner = "".join("%d => b%d.apply(r, op), " % (j, j) for j in range(n))
        apply_arms += "                %s::%s%s => match i { %s_ => OpOut::BadPath },\n" % (it.ident, vname(i), p, inner)
        probe_arms += "            %s::%s%s => vec![%s],\n" % (it.ident, vname(i), p, ", ".join("probe(b%d)" % j for j in range(n)))
        if form == "unit": ctor = "%s::%s" % (it.ident, vname(i))
        elif form == "tuple": ctor = "%s::%s(%s)" % (it.ident, vname(i), ", ".join("<%s as SizedNode>::from_value(&f[%d])" % (f.rust(), j) for j, f in enumerate(fs)))
        else: ctor = "%s::%s { %s }" % (it.ident, vname(i), ", ".join("%s: <%s as SizedNode>::from_value(&f[%d])" % (fname(j), f.rust(), j) for j, f in enumerate(fs)))
        from_arms += "            %d => %s,\n" % (i, ctor)
    return f"""
{flat_attr(it, True, it.tag)}
#[derive(Clone, PartialEq, PartialOrd)]
pub enum {it.ident} {{ {", ".join(vs)} }}
impl Node for {it.ident} {{
    fn desc() -> Desc {{ Desc::Enum {{ tag: {TAG_SIZE[it.tag]}, variants: vec![{vdesc}], sized: true, default: {("Some(%d)" % it.dflt) if it.dflt is not None else "None"} }} }}
    fn read(&self) -> Value {{
        match self {{
{read_arms}        }}
    }}
    unsafe fn emplace_value_unchecked<'a>(bytes: &'a mut [u8], v: &Value, _k: Kind) -> Result<&'a mut Self, Error> {{
        <Self as SizedNode>::from_value(v).emplace_unchecked(bytes)
    }}
    fn walk(&self, w: &mut Walk) {{
        w.obj(self, "senum");
        match self {{
{walk_arms}        }}
    }}
    #[allow(unused_variables)]
    fn apply(&mut self, path: &[usize], op: &Op) -> OpOut {{
        match path.split_first() {{
            None => sized_self_op(self, path, op),
            Some((i, r)) => match self {{
{apply_arms}            }},
        }}
    }}
    fn field_probes(&self) -> Vec<FieldProbe> {{
        match self {{
{probe_arms}        }}
    }}
    fn extra() -> Extra {{ Extra {{ data_offset: Some(Self::DATA_OFFSET), ..Default::default() }} }}
{default_glue(it, True)}}}
impl SizedNode for {it.ident} {{
    #[allow(unused_variables)]
    fn from_value(v: &Value) -> Self {{
        let (t, f) = variant(v);
        match t {{
{from_arms}            o => panic!("bad variant {{}}", o),
        }}
    }}
}}
"""

def emit_ustruct(it):
    fs = it.fields; n = len(fs)
    descs = ", ".join(desc_of(f) for f in fs)
    reads = ", ".join("%s.read()" % facc(it, i) for i in range(n))
    walks = "".join("        %s.walk(w);\n" % facc(it, i) for i in range(n))
    applys = "".join("            Some((%d, r)) => %s.apply(r, op),\n" % (i, facc(it, i)) for i in range(n))
    probes = ", ".join("probe(&%s)" % facc(it, i) for i in range(n))
    def init(lit):
        parts = []
        for i, f in enumerate(fs):
            e = ("<%s as SizedNode>::from_value(&f[%d])" % (f.rust(), i)) if (lit and f.sized) else ("ByValue(&f[%d], kind)" % i)
            parts.append(e if it.form == "tuple" else "%s: %s" % (fname(i), e))
        return ("%sInit(%s)" if it.form == "tuple" else "%sInit { %s }") % (it.ident, ", ".join(parts))
    return f"""
{flat_attr(it, False)}
{struct_decl(it, False)}
impl Node for {it.ident} {{
    fn desc() -> Desc {{ Desc::Struct {{ fields: vec![{descs}], sized: false }} }}
    fn read(&self) -> Value {{ Value::Struct(vec![{reads}]) }}
    unsafe fn emplace_value_unchecked<'a>(bytes: &'a mut [u8], v: &Value, kind: Kind) -> Result<&'a mut Self, Error> {{
        let f = fields(v);
        match kind {{
            Kind::Literal => {init(True)}.emplace_unchecked(bytes),
            _ => {init(False)}.emplace_unchecked(bytes),
        }}
    }}
    fn walk(&self, w: &mut Walk) {{
        w.obj(self, "ustruct");
        w.bytes(self.as_bytes(), "ustruct.as_bytes");
{walks}    }}
    fn apply(&mut self, path: &[usize], op: &Op) -> OpOut {{
        match path.split_first() {{
            None => unsized_self_op(self, op),
{applys}            _ => OpOut::BadPath,
        }}
    }}
    fn field_probes(&self) -> Vec<FieldProbe> {{ vec![{probes}] }}
    fn extra() -> Extra {{ Extra {{ last_field_offset: Some(Self::LAST_FIELD_OFFSET), ..Default::default() }} }}
{default_glue(it, False)}}}
"""

def emit_uenum(it):
    vs = [vname(i) + variant_decl(form, fs) + ("" if it.discs is None else " = %d" % it.discs[i]) for i, (form, fs) in enumerate(it.variants)]
    # (another attribute in front of #[default] when the default variant is not the first one)
    # (only where the first variant is a unit variant: a macro that picks the wrong default must still compile,
    # so that the wrong default is REPORTED rather than the harness failing to build)
    doc_first = bool(it.dflt) and it.variants[0][0] == "unit"
    vs = [(("/// the default variant\n    #[default] " if doc_first else "#[default] ") if i == it.dflt else "") + v for i, v in enumerate(vs)]
    if doc_first:
        # ... and a conditional `default` whose condition is false on the first variant (it must be ignored)
        vs[0] = "#[cfg_attr(any(), default)] " + vs[0]
    vdesc = ", ".join("vec![%s]" % ", ".join(desc_of(f) for f in fs) for _, fs in it.variants)
    read_arms = walk_arms = apply_arms = probe_arms = emp_arms = ""
    for i, (form, fs) in enumerate(it.variants):
        n = len(fs); p = pat(form, n)
        R = "%sRef::%s%s" % (it.ident, vname(i), p)
        M = "%sMut::%s%s" % (it.ident, vname(i), p)
        read_arms += "            %s => Value::Enum(%d, vec![%s]),\n" % (R, i, ", ".join("b%d.read()" % j for j in range(n)))
        walk_arms += "            %s => { if self.tag() as usize != %d { w.problems.push(\"tag() disagrees with as_ref()\".into()); } %s }\n" % (R, i, " ".join("b%d.walk(w);" % j for j in range(n)))
        inner = "".join("%d => b%d.apply(r, op), " % (j, j) for j in range(n))
        apply_arms += "                %s => match i { %s_ => OpOut::BadPath },\n" % (M, inner)
        probe_arms += "            %s => vec![%s],\n" % (R, ", ".join("probe(b%d)" % j for j in range(n)))
        def init(lit):
            parts = []
            for j, f in enumerate(fs):
                e = ("<%s as SizedNode>::from_value(&f[%d])" % (f.rust(), j)) if (lit and f.sized) else ("ByValue(&f[%d], kind)" % j)
                parts.append(e if form == "tuple" else "%s: %s" % (fname(j), e))
            if form == "unit": return "%sInit%s" % (it.ident, vname(i))
            if form == "tuple": return "%sInit%s(%s)" % (it.ident, vname(i), ", ".join(parts))
            return "%sInit%s { %s }" % (it.ident, vname(i), ", ".join(parts))
        emp_arms += "            (%d, Kind::Literal) => %s.emplace_unchecked(bytes),\n            (%d, _) => %s.emplace_unchecked(bytes),\n" % (i, init(True), i, init(False))
    return f"""
{flat_attr(it, False, it.tag)}
pub enum {it.ident} {{ {", ".join(vs)} }}
impl Node for {it.ident} {{
    fn desc() -> Desc {{ Desc::Enum {{ tag: {TAG_SIZE[it.tag]}, variants: vec![{vdesc}], sized: false, default: {("Some(%d)" % it.dflt) if it.dflt is not None else "None"} }} }}
    fn read(&self) -> Value {{
        match self.as_ref() {{
{read_arms}        }}
    }}
    #[allow(unused_variables)]
    unsafe fn emplace_value_unchecked<'a>(bytes: &'a mut [u8], v: &Value, kind: Kind) -> Result<&'a mut Self, Error> {{
        let (t, f) = variant(v);
        match (t, kind) {{
{emp_arms}            o => panic!("bad variant {{:?}}", o.0),
        }}
    }}
    fn walk(&self, w: &mut Walk) {{
        w.obj(self, "uenum");
        w.bytes(self.as_bytes(), "uenum.as_bytes");
        match self.as_ref() {{
{walk_arms}        }}
    }}
    #[allow(unused_variables)]
    fn apply(&mut self, path: &[usize], op: &Op) -> OpOut {{
        match path.split_first() {{
            None => unsized_self_op(self, op),
            Some((i, r)) => match self.as_mut() {{
{apply_arms}            }},
        }}
    }}
    fn field_probes(&self) -> Vec<FieldProbe> {{
        match self.as_ref() {{
{probe_arms}        }}
    }}
    fn extra() -> Extra {{ Extra {{ data_offset: Some(Self::DATA_OFFSET), data_min_sizes: Self::DATA_MIN_SIZES.to_vec(), ..Default::default() }} }}
{default_glue(it, False)}}}
"""

EMIT = {"K": emit_cenum, "P": emit_sstruct, "Q": emit_senum, "U": emit_ustruct, "W": emit_uenum}

HEADER = """// @generated by gen/catalog.py — do not edit
#![allow(dead_code, non_camel_case_types, clippy::all)]
use flatty::{flat, prelude::*, portable::{le, be, Bool}, Emplacer, Error, FlatVec, FlatString, FlexVec};
use harness::node::*;
use refmodel::{ops::{Kind, Op, OpOut}, Desc, Value};
"""

# ---------------------------------------------------------------- the catalogs
def catalog(thorough):
    """returns list of top-level shapes (type expressions) to visit"""
    top = []
    def add(t):
        if t.spec() not in [x.spec() for x in top]: top.append(t)
        return t
    # c-like enums
    K = [get(CEnum, "u8", 2, 1), get(CEnum, "u8", 3, 0), get(CEnum, "u16", 3, 2), get(CEnum, "u32", 2, 0), get(CEnum, "u8", 1, 0),
         get(CEnum, "u8", 256, 255), get(CEnum, "u8", 255, 0),   # as many variants as the tag can count, and one less
         get(CEnum, "u8", 3, 1, [1, 5, 9]), get(CEnum, "u16", 2, 0, [7, 300]),   # explicit discriminants
         get(CEnum, "u8", 3, 0, [9, 5, 1]), get(CEnum, "u8", 4, 2, [3, 200, 7, 0]),   # ... not in ascending order
         get(CEnum, "u8", 3, 2, [1, None, None]), get(CEnum, "u8", 3, 1, [None, 5, None])]   # ... only some variants numbered
    if thorough: K += [get(CEnum, "u16", 4, 1), get(CEnum, "u32", 4, 3)]
    for k in K: add(k)
    K2, K3, K16, K32 = K[0], K[1], K[2], K[3]
    ARR = [Arr(U8, 3), Arr(U16, 2), Arr(U32, 0), Arr(BOOL, 2)]
    # sized structs over the alignment ladder
    maxlen = 3 if thorough else 2
    for n in range(1, maxlen + 1):
        for fs in itertools.product(LADDER, repeat=n):
            add(get(SStruct, list(fs)))
    extra3 = [(U8, U16, U32), (U8, U64, U8), (U32, U8, U16), (U128, U8, U8), (U16, U8, U64)]
    for fs in extra3: add(get(SStruct, list(fs)))
    odd = [[BOOL], [U8, BOOL], [K3, U32], [ARR[0], U16], [ARR[3], U8], [K16, U8], [UNIT, U16], [F32, U8], [F64, I8], [USIZE, U8],
           [ARR[2], U8], [ARR[1], BOOL], [K2, K32]]
    for fs in odd: add(get(SStruct, fs))
    add(get(SStruct, []))                                   # unit struct
    # zero-sized types whose alignment is > 1 (size gates never fire for them, only the alignment gate does)
    add(Arr(U32, 0)); add(get(SStruct, [Arr(U64, 0)])); add(get(SStruct, [Arr(U16, 0), UNIT]))
    add(get(SStruct, [U8, U32], "tuple")); add(get(SStruct, [BOOL, U16, K2], "tuple"))
    PP = get(SStruct, [U8, LE16, LE32, Arr(LE64, 2)])       # portable struct
    add(PP); add(get(SStruct, [BE32, BOOL, LEF32])); add(get(SStruct, [BEF64, I8]))
    # every portable scalar alias and every native primitive appears in at least one composite
    P_allp = add(get(SStruct, [LE16, BE16, LEI16, BEI16, LE32, BE32, LEI32, BEI32, LE64, BE64, LEI64, BEI64, LEF32, BEF32, LEF64, BEF64, BOOL]))
    add(get(SStruct, [I8, I16, I32, I64, I128, ISIZE, USIZE, F32, F64]))
    add(get(UStruct, [BEI16, Vec(LEI64, BE16)])); add(Vec(BEF32, LE32)); add(Vec(LEI16, BE64))
    P_u8u32 = get(SStruct, [U8, U32]); P_bool = get(SStruct, [U8, BOOL])
    add(get(SStruct, [P_u8u32, U8]))                        # nested sized struct
    # arrays whose element has SIZE != ALIGN and a validity constraint
    add(get(SStruct, [Arr(P_bool, 3), U8])); add(get(SStruct, [U16, Arr(get(SStruct, [U8, U32]), 2)]))
    # sized enums
    tags = ["u8", "u16", "u32"]
    vsets = [
        ([("unit", []), ("tuple", [U8])], 0),
        ([("unit", []), ("tuple", [U32]), ("tuple", [U8, U16])], 0),
        ([("tuple", [U64]), ("named", [U8, BOOL])], None),
        ([("unit", []), ("tuple", [K3]), ("tuple", [ARR[3]]), ("unit", [])], 3),
        ([("tuple", [U16, U8]), ("named", [U8, U16]), ("tuple", [U32]), ("unit", [])], 3),
        ([("unit", []), ("tuple", [U128])], 0),
    ]
    SE = []
    for tag in tags:
        for vs, d in (vsets if thorough or tag == "u8" else vsets[:3]):
            SE.append(add(get(SEnum, tag, vs, d)))
    if thorough:
        pool = [("unit", []), ("tuple", [U8]), ("tuple", [U16, U8]), ("named", [U32, BOOL]), ("tuple", [U64])]
        for k in (2, 3):
            for combo in itertools.combinations_with_replacement(pool, k):
                d = next((i for i, (f, _) in enumerate(combo) if f == "unit"), None)
                SE.append(add(get(SEnum, "u16" if k == 2 else "u8", list(combo), d)))
    QP = add(get(SEnum, "u8", [("unit", []), ("tuple", [LE32, BOOL]), ("tuple", [PP])], 0))   # portable sized enum
    Q_small = get(SEnum, "u8", vsets[0][0], 0)
    add(get(SStruct, [Q_small, U16]))
    Q_u32 = get(SEnum, "u8", [("unit", []), ("tuple", [U32]), ("tuple", [BOOL])], 0)
    add(get(SStruct, [Arr(Q_u32, 2)])); add(get(SStruct, [U8, Arr(Q_small, 3)]))
    # containers at top level
    VP = [(UNIT, U8), (U8, U8), (U8, U16), (U8, U32), (U16, U8), (U32, U8), (U64, U8), (U64, U32), (U128, U8), (ARR[0], U32), (BOOL, U8), (BOOL, U32),
          (LE32, LE16), (U16, BE32), (P_u8u32, U16), (Q_small, U8), (K3, U8), (I32, U16), (P_bool, U8), (U8, USIZE), (U8, U64), (LE16, U8), (U8, LE64), (Arr(P_bool, 2), U8), (Arr(BOOL, 3), U16)]
    for e, l in VP: add(Vec(e, l))
    for l in [U8, U16, U32, U64, USIZE, LE16, BE32, LE64]: add(Str(l))
    V88 = Vec(U8, U8); V_i32_16 = Vec(I32, U16); V_b8 = Vec(BOOL, U8); S8 = Str(U8)
    # unsized structs
    prefixes = [[], [U8], [U32], [U8, U16], [U64, U8], [BOOL], [K3], [U8, U32], [U16, U64]]
    tails = [V88, Vec(U8, U16), Vec(U32, U8), Vec(U64, U32), V_b8, S8, Str(U32), Flex(V88, U8), Flex(U32, U16)]
    US = []
    for pi, p in enumerate(prefixes):
        for ti, t in enumerate(tails):
            if thorough or pi in (0, 1, 2) or ti in (0, 3) or (pi + ti) % 4 == 0 or (pi >= 7 and ti in (0, 1, 5, 7)):
                US.append(add(get(UStruct, p + [t])))
    add(get(UStruct, [U16, V88], "tuple"))
    U_u32_v88 = get(UStruct, [U32, V88]); U_u8_v = get(UStruct, [U8, Vec(U8, U16)])
    UN = add(get(UStruct, [U8, U_u32_v88]))                # nested unsized struct tail
    add(get(UStruct, [U16, UN]))                            # depth 3
    add(get(UStruct, [U8, U16, Vec(U64, U32)]))             # the repo's UnsizedStruct shape
    # unsized enums
    UE = []
    def ue(tag, vs, d):
        x = add(get(UEnum, tag, vs, d)); UE.append(x); return x
    W_repo = ue("u8", [("unit", []), ("tuple", [U8, U16]), ("named", [U8, Vec(U8, U16)])], 0)
    W_msg = ue("u8", [("unit", []), ("tuple", [I32]), ("tuple", [V_i32_16])], 0)
    W_pad = ue("u8", [("unit", []), ("tuple", [U32]), ("tuple", [Vec(U8, U16)]), ("tuple", [U8])], 0)
    ue("u8", [("unit", []), ("tuple", [BOOL]), ("tuple", [S8])], 0)
    ue("u8", [("unit", []), ("tuple", [Flex(V88, U8)])], 0)
    ue("u16", [("tuple", [U64]), ("unit", []), ("tuple", [U8, Vec(U64, U8)])], 1)
    ue("u32", [("unit", []), ("tuple", [U8]), ("tuple", [V88])], 0)
    ue("u8", [("unit", []), ("tuple", [U8, U16]), ("named", [U8, U16, Arr(U8, 4)])], 0)   # all-sized variants
    ue("u8", [("tuple", [U8]), ("tuple", [V88])], None)     # no default
    ue("u8", [("unit", []), ("tuple", [U_u32_v88])], 0)     # nested unsized struct
    ue("u16", [("unit", []), ("tuple", [K3, V_b8]), ("tuple", [Q_small])], 0)
    W_nested = ue("u8", [("unit", []), ("tuple", [W_pad])], 0)
    # variants with three fields: padding in front of a middle field, a less aligned last field
    ue("u8", [("unit", []), ("tuple", [U8, U32, U16]), ("named", [U8, U32, V88])], 0)
    ue("u16", [("unit", []), ("tuple", [U16, U64, S8]), ("tuple", [U8, U64, U8]), ("named", [U8, U32, Flex(U8, U8)])], 0)
    add(get(UStruct, [U8, W_pad]))                          # enum as struct tail
    if thorough:
        for tag in tags:
            ue(tag, [("unit", []), ("tuple", [U16]), ("tuple", [Vec(U16, U8)])], 0)
            ue(tag, [("unit", []), ("tuple", [U8, U64]), ("tuple", [Str(U16)]), ("unit", [])], 3)
            ue(tag, [("tuple", [U128]), ("unit", []), ("named", [BOOL, Flex(U32, U8)])], 1)
    # portable unsized
    PU = add(get(UStruct, [LE16, Vec(LE32, LE16)]))
    add(get(UEnum, "u8", [("unit", []), ("tuple", [LEF32, PP]), ("tuple", [PU])], 0))
    add(get(UStruct, [U8, Str(LE16)])); add(get(UStruct, [BOOL, Flex(Vec(U8, U8), LE16)]))
    add(Flex(Vec(U8, U8), LE16)); add(Flex(PU, U8)); add(Vec(PP, LE16)); add(Vec(QP, U8))
    # portable declared on enums whose tag is wider than a byte (the macro accepts it)
    add(get(SEnum, "u16", [("unit", []), ("tuple", [LE32])], 0, True))
    add(get(UEnum, "u16", [("unit", []), ("tuple", [Vec(U8, U8)])], 0, True))
    add(get(UEnum, "u32", [("unit", []), ("tuple", [LE16, Str(U8)])], 0, True))
    add(Flex(Vec(U32, U8), U8)); add(Flex(Vec(U16, U8), U8))
    # vectors whose CONSTRAINED elements are more aligned than the length field is wide (padding between the
    # length and the first element: a validator must look at the elements where the accessors find them)
    add(Vec(get(SStruct, [U32, BOOL]), U16)); add(Vec(Q_u32, U8)); add(Vec(get(SStruct, [U64, K3]), U8)); add(get(UStruct, [U8, Vec(Q_u32, U16)]))
    # a tail vector of composite elements whose SIZE is not a multiple of the struct's ALIGN (the struct's extent
    # is the rounded-up extent of its tail)
    add(get(UStruct, [U64, Vec(Arr(U32, 2), U32)])); add(get(UStruct, [U32, Vec(Arr(U8, 3), U8)])); add(get(UStruct, [U64, Vec(P_u8u32, U16)]))
    # SYSTEMATIC family: every ordered pair (thorough: every ordered triple) of field layout classes
    # (size, alignment) in {(1,1) (2,2) (4,4) (8,8) (0,4) (3,1) (1,1 constrained)} in front of a byte-vector tail
    KINDS = [U8, U16, U32, U64, Arr(U32, 0), Arr(U8, 3), BOOL]
    for combo in itertools.product(KINDS, repeat=2):
        add(get(UStruct, list(combo) + [V88], "named", True))
    if thorough:
        for combo in itertools.product(KINDS, repeat=3):
            add(get(UStruct, list(combo) + [V88], "named", True))
    # the same pairs as the fields of an enum variant (payload placed behind a tag of every width)
    # (quick: the 21 pairs with distinct classes in ascending / descending order are enough for a build under a minute)
    for tag in (["u8", "u16", "u32"] if thorough else ["u8"]):
        for ci, combo in enumerate(itertools.product(KINDS, repeat=2)):
            if not thorough and ci % 2 == 1:
                continue
            add(get(UEnum, tag, [("unit", []), ("tuple", list(combo) + [V88]), ("tuple", [combo[1]])], 0, False, None, True))
    # an enum variant whose tail (behind sized fields) is a FlexVec of unsized items / another unsized enum / an unsized
    # struct ending in a FlexVec: the size of such a tail is NOT determined by its first MIN_SIZE bytes
    add(get(UEnum, "u8", [("unit", []), ("tuple", [U16, Flex(V88, U8)])], 0))
    add(get(UEnum, "u16", [("unit", []), ("tuple", [U8, W_pad]), ("tuple", [U32])], 0))
    add(get(UEnum, "u8", [("unit", []), ("tuple", [U8, get(UStruct, [U16, Flex(V88, U8)])])], 0))
    # empty tuple and empty struct-like variants
    add(get(UEnum, "u16", [("unit", []), ("tuple", []), ("named", []), ("tuple", [U8, U32, Vec(U8, U16)])], 0))
    add(get(UEnum, "u8", [("tuple", []), ("tuple", [V88])], None))
    # #[default] on a non-first variant behind a doc comment, the first variant being a unit variant as well
    add(get(UEnum, "u8", [("unit", []), ("tuple", [U16]), ("unit", [])], 2)); add(get(UEnum, "u16", [("unit", []), ("tuple", [V88]), ("tuple", [U32]), ("unit", [])], 3))
    # a zero-sized but ALIGNED field in the middle of a field list (every statement of the layout rule must pad for it)
    add(get(UStruct, [U8, Arr(U32, 0), U8, V88])); add(get(UStruct, [U8, Arr(U64, 0), U8, Str(U8)]))
    add(get(UEnum, "u8", [("unit", []), ("tuple", [U8, Arr(U64, 0), U8, U32]), ("named", [U8, Arr(U32, 0), V88])], 0))
    add(get(SStruct, [U8, Arr(U32, 0), U8]))
    # three sized fields in front of the tail, a middle field that starts off the next field's alignment
    add(get(UStruct, [U16, Arr(U16, 2), U32, V88])); add(get(UStruct, [U8, Arr(U8, 2), U16, V88])); add(get(UStruct, [U8, U16, U32, V88]))
    # unsized enums declared with explicit discriminants (ignored by the macro for unsized enums: the tag is the index):
    # values at or above the variant count, and a permutation of 0..n
    add(get(UEnum, "u8", [("named", [U32, Vec(U8, U16)]), ("tuple", [U16]), ("unit", [])], 2, False, [5, 1, 9]))
    add(get(UEnum, "u8", [("tuple", [V88]), ("unit", [])], 1, False, [1, 0]))
    # unsized enums whose strictly smallest variant is declared LAST / beyond a power-of-two variant count
    ue("u8", [("named", [U32, Vec(U8, U16)]), ("tuple", [U32]), ("unit", [])], 2)
    ue("u8", [("tuple", [U16]), ("tuple", [U32]), ("tuple", [U8, V88]), ("tuple", [U64]), ("unit", [])], 4)
    add(get(UEnum, "u8", [("tuple", [LE32, Vec(U8, LE16)]), ("tuple", [LE16]), ("unit", [])], 2, True))
    # a FlexVec whose offset type is more aligned than its items, behind a prefix that is not a multiple of it
    add(get(UStruct, [U8, Flex(Str(U8), U16)])); add(get(UStruct, [U8, Flex(V88, U32)]))
    add(get(UEnum, "u8", [("unit", []), ("tuple", [U8, Flex(U8, U16)])], 0))
    # instantiations of the generic definitions
    for r_, sp in [("GU<u8, 0>", "generic_ustruct(u8,0)"), ("GU<u32, 3>", "generic_ustruct(u32,3)"), ("GU<Bool, 2>", "generic_ustruct(bool,2)"),
                   ("GE<u8, u32, 2>", "generic_uenum(u8,u32,2)"), ("GE<u64, Bool, 1>", "generic_uenum(u64,bool,1)"), ("GE<u16, u8, 0>", "generic_uenum(u16,u8,0)")]:
        g = Leaf(r_, spec=sp); g.sized = False
        add(g)
    # FlexVec at top level
    items = [U8, U32, BOOL, P_u8u32, V88, V_i32_16, V_b8, S8, U_u32_v88, W_pad, Flex(U8, U8), U_u8_v, W_repo]
    ls = [U8, U16, U32, LE16] if thorough else [U8, U16]
    for it in items:
        for l in ls:
            add(Flex(it, l))
    add(Flex(U64, U8)); add(Flex(V88, U32)); add(Flex(U16, LE16)); add(Flex(Vec(U16, U16), U16))
    add(Flex(V88, U64)); add(Flex(V88, USIZE)); add(Flex(U8, BE32)); add(Flex(Str(U8), LE64)); add(Flex(U16, BE16))
    # an item type with a destructor
    pd = Leaf("PDrop", spec="sstruct_with_drop(u8,u16)")
    add(pd); add(Flex(pd, U8)); add(Vec(pd, U8)); add(Flex(pd, U16)); add(get(UStruct, [pd, V88])); add(get(SStruct, [U8, pd]))
    # zero-sized items: the payload of every item is empty
    add(Flex(UNIT, U8)); add(Flex(Arr(U32, 0), U16)); add(Flex(get(SStruct, []), LE16))
    global IO_SHAPES
    W_con = get(UEnum, "u16", [("unit", []), ("tuple", [K3, V_b8]), ("tuple", [Q_small])], 0)
    IO_SHAPES = [Vec(BOOL, U8), Vec(U8, U64), W_con, W_msg, W_pad, U_u32_v88, Vec(U8, U32), Str(U16), Flex(V88, U8), Flex(Vec(U16, U16), U16), P_u8u32, Q_small, PU, Flex(U32, U8), W_repo, UNIT, Flex(V88, LE16), Flex(V88, BE32)]
    return top

IO_SHAPES = []
GENERIC_SRC = r'''
// ---- an item type with a destructor that writes to its own bytes (FlexVec::truncate runs destructors in place)
#[flat(default = true)]
#[derive(Clone, PartialEq, PartialOrd)]
pub struct PDrop { pub f0: u8, pub f1: u16 }
impl Drop for PDrop {
    fn drop(&mut self) {
        harness::guard::note_drop(self as *const Self as usize);
        self.f0 = 0xDD;
        self.f1 = 0xDDDD;
    }
}
impl Node for PDrop {
    fn desc() -> Desc { Desc::Struct { fields: vec![<u8 as Node>::desc(), <u16 as Node>::desc()], sized: true } }
    fn read(&self) -> Value { Value::Struct(vec![self.f0.read(), self.f1.read()]) }
    unsafe fn emplace_value_unchecked<'a>(bytes: &'a mut [u8], v: &Value, _k: Kind) -> Result<&'a mut Self, Error> {
        <Self as SizedNode>::from_value(v).emplace_unchecked(bytes)
    }
    fn walk(&self, w: &mut Walk) {
        w.obj(self, "sstruct");
        self.f0.walk(w);
        self.f1.walk(w);
    }
    fn apply(&mut self, path: &[usize], op: &Op) -> OpOut {
        match path.split_first() {
            None => match op {
                // plain assignment would run the destructor on the old value in place, which is what a user gets too
                Op::Set(v) => { *self = <Self as SizedNode>::from_value(v); OpOut::Done }
                _ => sized_self_op(self, path, op),
            },
            Some((0, r)) => self.f0.apply(r, op),
            Some((1, r)) => self.f1.apply(r, op),
            _ => OpOut::BadPath,
        }
    }
    fn field_probes(&self) -> Vec<FieldProbe> { vec![probe(&self.f0), probe(&self.f1)] }
    harness::impl_sized_info!();
    fn declared_portable() -> bool { false }
    fn try_default(bytes: &mut [u8]) -> Option<Result<&mut Self, Error>> { Some(Self::default_in_place(bytes)) }
    harness::impl_flex_push_default!();
}
impl SizedNode for PDrop {
    fn from_value(v: &Value) -> Self { let f = fields(v); PDrop { f0: <u8 as SizedNode>::from_value(&f[0]), f1: <u16 as SizedNode>::from_value(&f[1]) } }
}

// ---- generic definitions (modelled on the repo's tests/src/generics.rs), hand-written glue
#[flat(sized = false, default = true)]
pub struct GU<T: Flat + Default + Clone, const N: usize>
where
    [T; N]: Default,
{
    pub a: [T; N],
    pub b: u8,
    pub c: FlatVec<T, u16>,
}
impl<T: SizedNode + Default, const N: usize> Node for GU<T, N>
where
    [T; N]: Default,
{
    fn desc() -> Desc { Desc::Struct { fields: vec![<[T; N] as Node>::desc(), <u8 as Node>::desc(), <FlatVec<T, u16> as Node>::desc()], sized: false } }
    fn read(&self) -> Value { Value::Struct(vec![self.a.read(), self.b.read(), self.c.read()]) }
    unsafe fn emplace_value_unchecked<'a>(bytes: &'a mut [u8], v: &Value, kind: Kind) -> Result<&'a mut Self, Error> {
        let f = fields(v);
        match kind {
            Kind::Literal => GUInit { a: <[T; N] as SizedNode>::from_value(&f[0]), b: <u8 as SizedNode>::from_value(&f[1]), c: ByValue(&f[2], kind) }.emplace_unchecked(bytes),
            _ => GUInit { a: ByValue(&f[0], kind), b: ByValue(&f[1], kind), c: ByValue(&f[2], kind) }.emplace_unchecked(bytes),
        }
    }
    fn walk(&self, w: &mut Walk) {
        w.obj(self, "ustruct");
        w.bytes(self.as_bytes(), "ustruct.as_bytes");
        self.a.walk(w);
        self.b.walk(w);
        self.c.walk(w);
    }
    fn apply(&mut self, path: &[usize], op: &Op) -> OpOut {
        match path.split_first() {
            None => unsized_self_op(self, op),
            Some((0, r)) => self.a.apply(r, op),
            Some((1, r)) => self.b.apply(r, op),
            Some((2, r)) => self.c.apply(r, op),
            _ => OpOut::BadPath,
        }
    }
    fn field_probes(&self) -> Vec<FieldProbe> { vec![probe(&self.a), probe(&self.b), probe(&self.c)] }
    fn extra() -> Extra { Extra { last_field_offset: Some(Self::LAST_FIELD_OFFSET), ..Default::default() } }
    fn declared_portable() -> bool { false }
    fn try_default(bytes: &mut [u8]) -> Option<Result<&mut Self, Error>> { Some(Self::default_in_place(bytes)) }
    harness::impl_flex_push_default!();
}

#[flat(sized = false, default = true, tag_type = "u16")]
pub enum GE<S: Flat + Default + Clone, T: Flat + Default + Clone, const N: usize>
where
    [T; N]: Default,
{
    #[default]
    V0,
    V1(S, T),
    V2([T; N], FlatVec<T, u8>),
    V3 { f0: S, f1: GU<T, N> },
}
impl<S: SizedNode + Default, T: SizedNode + Default, const N: usize> Node for GE<S, T, N>
where
    [T; N]: Default,
{
    fn desc() -> Desc {
        Desc::Enum { tag: 2, variants: vec![vec![], vec![S::desc(), T::desc()], vec![<[T; N] as Node>::desc(), <FlatVec<T, u8> as Node>::desc()], vec![S::desc(), <GU<T, N> as Node>::desc()]], sized: false, default: Some(0) }
    }
    fn read(&self) -> Value {
        match self.as_ref() {
            GERef::V0 => Value::Enum(0, vec![]),
            GERef::V1(b0, b1) => Value::Enum(1, vec![b0.read(), b1.read()]),
            GERef::V2(b0, b1) => Value::Enum(2, vec![b0.read(), b1.read()]),
            GERef::V3 { f0, f1 } => Value::Enum(3, vec![f0.read(), f1.read()]),
        }
    }
    unsafe fn emplace_value_unchecked<'a>(bytes: &'a mut [u8], v: &Value, kind: Kind) -> Result<&'a mut Self, Error> {
        let (t, f) = variant(v);
        match t {
            0 => GEInitV0.emplace_unchecked(bytes),
            1 => GEInitV1(ByValue(&f[0], kind), ByValue(&f[1], kind)).emplace_unchecked(bytes),
            2 => GEInitV2(ByValue(&f[0], kind), ByValue(&f[1], kind)).emplace_unchecked(bytes),
            3 => GEInitV3 { f0: ByValue(&f[0], kind), f1: ByValue(&f[1], kind) }.emplace_unchecked(bytes),
            o => panic!("bad variant {}", o),
        }
    }
    fn walk(&self, w: &mut Walk) {
        w.obj(self, "uenum");
        w.bytes(self.as_bytes(), "uenum.as_bytes");
        match self.as_ref() {
            GERef::V0 => {}
            GERef::V1(b0, b1) => { b0.walk(w); b1.walk(w); }
            GERef::V2(b0, b1) => { b0.walk(w); b1.walk(w); }
            GERef::V3 { f0, f1 } => { f0.walk(w); f1.walk(w); }
        }
    }
    fn apply(&mut self, path: &[usize], op: &Op) -> OpOut {
        match path.split_first() {
            None => unsized_self_op(self, op),
            Some((i, r)) => match self.as_mut() {
                GEMut::V0 => OpOut::BadPath,
                GEMut::V1(b0, b1) => match i { 0 => b0.apply(r, op), 1 => b1.apply(r, op), _ => OpOut::BadPath },
                GEMut::V2(b0, b1) => match i { 0 => b0.apply(r, op), 1 => b1.apply(r, op), _ => OpOut::BadPath },
                GEMut::V3 { f0, f1 } => match i { 0 => f0.apply(r, op), 1 => f1.apply(r, op), _ => OpOut::BadPath },
            },
        }
    }
    fn field_probes(&self) -> Vec<FieldProbe> {
        match self.as_ref() {
            GERef::V0 => vec![],
            GERef::V1(b0, b1) => vec![probe(b0), probe(b1)],
            GERef::V2(b0, b1) => vec![probe(b0), probe(b1)],
            GERef::V3 { f0, f1 } => vec![probe(f0), probe(f1)],
        }
    }
    fn extra() -> Extra { Extra { data_offset: Some(Self::DATA_OFFSET), data_min_sizes: Self::DATA_MIN_SIZES.to_vec(), ..Default::default() } }
    fn declared_portable() -> bool { false }
    fn try_default(bytes: &mut [u8]) -> Option<Result<&mut Self, Error>> { Some(Self::default_in_place(bytes)) }
    harness::impl_flex_push_default!();
}

// ---- generic definitions declared portable: WHICH instantiations implement `Portable` is decided by the
// where clause the macro generates (C17: "Portable is only implemented when every field type is Portable")
#[flat(portable = true)]
pub struct GPS<A: Flat, B: Flat, C: Flat> { pub a: A, pub b: B, pub c: C }
#[flat(portable = true)]
pub struct GPT<A: Flat, B: Flat>(pub A, pub B);
#[flat(portable = true)]
pub enum GPQ<A: Flat, B: Flat, C: Flat> { X, Y(A, B), Z { c: C } }
#[flat(sized = false, portable = true)]
pub struct GPU<A: Flat, E: Flat, L: Flat + flatty::vec::Length> { pub a: A, pub t: FlatVec<E, L> }
#[flat(sized = false, portable = true)]
pub enum GPW<A: Flat, B: Flat, L: Flat + flatty::vec::Length> { X, Y(A, FlatString<L>), Z { b: B } }
#[flat(sized = false, portable = true)]
pub struct GPF<A: Flat, L: Flat + flatty::vec::Length> { pub a: A, pub t: FlexVec<FlatString<L>, L> }

pub struct ImplProbe<T: ?Sized>(pub core::marker::PhantomData<T>);
pub trait ViaPortable { fn implements_portable(&self) -> bool; }
impl<T: ?Sized + flatty::Portable> ViaPortable for ImplProbe<T> { fn implements_portable(&self) -> bool { true } }
pub trait ViaFallback { fn implements_portable(&self) -> bool; }
impl<T: ?Sized> ViaFallback for &ImplProbe<T> { fn implements_portable(&self) -> bool { false } }
'''

PROBE_ARGS = ["u8", "Bool", "le::U16", "be::F32", "()", "[le::I32; 2]", "u16", "f32", "usize", "[u32; 1]"]
PROBE_LENS = ["u8", "le::U16", "be::U64", "u16", "u32", "usize"]
def portable_probes_src():
    import itertools
    rows = []; seen = set()
    def row(ty, args):
        if ty in seen: return
        seen.add(ty)
        rows.append("        PortableProbe { ty: \"%s\", implements: (&ImplProbe::<%s>(core::marker::PhantomData)).implements_portable(), args: &[%s] },\n"
                    % (ty, ty, ", ".join("\"%s\"" % a for a in args)))
    # every argument type in every position (the others portable), every pair of positions with two natives,
    # and a few all-portable / all-native instantiations; full products would take rustc tens of minutes
    def sweep(name, pools):
        k = len(pools)
        base = [["u8", "le::U16"][i % 2] if pools[i] is PROBE_ARGS else ["u8", "le::U16"][i % 2] for i in range(k)]
        for i in range(k):
            for a in pools[i]:
                args = list(base); args[i] = a
                row("%s<%s>" % (name, ", ".join(args)), args)
        for i, j in itertools.combinations(range(k), 2):
            for a in pools[i][-4:]:
                for b in pools[j][-3:]:
                    args = list(base); args[i] = a; args[j] = b
                    row("%s<%s>" % (name, ", ".join(args)), args)
        for combo in itertools.product(*pools):
            row("%s<%s>" % (name, ", ".join(combo)), list(combo))
    sweep("GPS", [PROBE_ARGS] * 3); sweep("GPQ", [PROBE_ARGS] * 3); sweep("GPT", [PROBE_ARGS] * 2)
    sweep("GPU", [PROBE_ARGS, PROBE_ARGS, PROBE_LENS]); sweep("GPW", [PROBE_ARGS, PROBE_ARGS, PROBE_LENS]); sweep("GPF", [PROBE_ARGS, PROBE_LENS])
    s = "pub struct PortableProbe { pub ty: &'static str, pub implements: bool, pub args: &'static [&'static str] }\n"
    s += "/// is the argument type portable per the reference description?\npub fn probe_arg_portable() -> Vec<(&'static str, bool)> {\n    vec![\n"
    for a in sorted(set(PROBE_ARGS + PROBE_LENS)):
        s += "        (\"%s\", <%s as Node>::desc().is_portable()),\n" % (a, a)
    s += "    ]\n}\n"
    s += "/// instantiations of the generic portable definitions: does each implement `Portable`?\n"
    s += "pub fn portable_probes() -> Vec<PortableProbe> {\n    vec![\n%s    ]\n}\n" % "".join(rows)
    return s, len(rows)

def main():
    out = sys.argv[1]
    quick = catalog(False)
    nq_items = len(Item.order)
    thorough = catalog(True)
    qspecs = [t.spec() for t in quick]
    extra = [t for t in thorough if t.spec() not in qspecs]
    # split items over modules for readability only (one crate)
    src = [HEADER]
    src.append("mod quick_items {\nuse super::*;")
    for it in Item.order[:nq_items]:
        src.append("// id: %s" % it.spec())
        src.append(EMIT[it.PREFIX](it))
    src.append(GENERIC_SRC)
    src.append("}\npub use quick_items::*;")
    src.append("#[cfg(feature = \"thorough\")]\nmod thorough_items {\nuse super::*;")
    for it in Item.order[nq_items:]:
        src.append("// id: %s" % it.spec())
        src.append(EMIT[it.PREFIX](it))
    src.append("}\n#[cfg(feature = \"thorough\")]\npub use thorough_items::*;")
    def visit(name, lst):
        s = "pub fn %s() -> Vec<Box<dyn harness::ShapeDyn>> {\n    vec![\n" % name
        for t in lst:
            s += "        Box::new(harness::ShapeOf::<%s>::new(\"%s\")),\n" % (t.rust(), t.spec())
        return s + "    ]\n}\n"
    src.append(visit("quick_shapes", quick))
    src.append("#[cfg(feature = \"thorough\")]\n" + visit("thorough_extra_shapes", extra))
    src.append("#[cfg(not(feature = \"thorough\"))]\npub fn thorough_extra_shapes() -> Vec<Box<dyn harness::ShapeDyn>> { vec![] }\n")
    src.append("pub const HAS_THOROUGH: bool = cfg!(feature = \"thorough\");\n")
    io = "pub fn io_shapes() -> Vec<Box<dyn harness::IoShape>> {\n    vec![\n"
    for t in IO_SHAPES:
        io += "        Box::new(harness::IoShapeOf::<%s>::new(\"%s\")),\n" % (t.rust(), t.spec())
    src.append(io + "    ]\n}\n")
    psrc, nprobes = portable_probes_src()
    src.append(psrc)
    src.append("pub const N_QUICK: usize = %d;\npub const N_THOROUGH: usize = %d;\n" % (len(quick), len(quick) + len(extra)))
    open(out, "w").write("\n".join(src))
    print("items=%d (quick items=%d) quick shapes=%d thorough shapes=%d portable-impl probes=%d" % (len(Item.order), nq_items, len(quick), len(quick) + len(extra), nprobes))

if __name__ == "__main__":
    main()
