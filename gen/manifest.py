#!/usr/bin/env python3
"""Writes /verif/MANIFEST.json from the table below (kept in one place so that it stays valid)."""
import json, os
ROOT = os.path.dirname(os.path.dirname(os.path.abspath(__file__)))
props = [json.loads(l) for l in open(os.path.join(ROOT, "properties.jsonl"))]

MC_NOTE = "Trusted base: the reference model (crates/refmodel: decoder, encoder, operation model), the Node glue, stateright's BFS. The model is never run alone: every transition is a real execution. Bounds: catalog shapes, buffer lengths and operation alphabets stated in DESIGN.md §6; configurations that hit the per-configuration transition cap are listed in the evidence (caps_hit) and make exhaustive=false."
SWEEP_NOTE = "Trusted base: the reference model (crates/refmodel, independent of flatty), the generated Node glue (thin, mechanical, uses only the public API), rustc's layout as second witness. Bounds: the catalog of type shapes, the value alphabets and the byte-string lengths stated in the evidence 'rule'; values outside the alphabets are not explored."
CHECKS = {
 "C01": ("exploration", "decode", "6.C01", "bounded exhaustive enumeration of inputs (byte-string tree + structured mutations) on the real validators, child process with crash/hang journal and canary/guard-page monitors",
         "Every byte string up to the bound over a 5-value per-shape alphabet, every truncation and header-field mutation of every enumerated valid image, at every address offset, through all four checked entry points: no panic, abort, hang, write, or disagreement. Totality is a for-all-inputs claim; a complete sweep of a bounded input space that contains every boundary the code branches on is the strongest thing short of proof."),
 "C02": ("exploration", "decode", "6.C02", "bounded exhaustive enumeration of inputs, differential against an independent reference decoder, deep walk of the accepted view",
         "Same inputs as C01; acceptance must equal the reference's well-formedness verdict, and every accepted value is walked through the safe accessors (pointer ranges inside the slice, len<=capacity, re-validation of as_bytes(), content equal to the reference decoding)."),
 "C04": ("exploration", "layout", "6.C04", "exhaustive product sweep: catalog shape x buffer length x value x mapping way, three-way comparison library / compiler / reference C rule",
         "Every catalog definition and every single buffer length around MIN_SIZE: library constants, compiler layout (size_of/align_of(_val), field addresses of mapped values) and the reference C rule must agree; a mapped value never claims more than its slice."),
 "C06": ("exploration", "decode", "6.C06", "exhaustive enumeration of every cut position and a bounded suffix set for every enumerated message of every catalog shape",
         "For every enumerated message: every proper prefix is InsufficientSize (or the same content when only padding is missing), every extension (all short suffixes over {00,01,FF}, every other message image) reads the same content and size()."),
 "C03": ("exploration", "emplace", "6.C03", "exhaustive product sweep: catalog shape x enumerated value x emplacer kind x entry point x buffer length x address offset x garbage fill, differential against the reference encoder/decoder",
         "Every enumerated value of every catalog shape through every emplacer kind (nested emplacers, literals/flat_vec!, grow-from-empty) into every sufficiently large buffer with three garbage fills: reads back the value, re-validates, non-padding bytes equal the reference encoding, image independent of the fill."),
 "C15": ("exploration", "emplace", "6.C15", "exhaustive product sweep over every single buffer length from 0 to beyond the need and every address offset, outcome compared with the reference fit predicate",
         "new_in_place / FlatWrap::new_in_place / default_in_place on every buffer length 0..need+2*ALIGN+2 at every offset modulo ALIGN: never panics, BadAlign when misaligned, InsufficientSize when the reference says the content does not fit, success (with the C03 oracle) when it does; canaries intact on failures too."),
 "C17": ("exploration", "emplace", "6.C17", "exhaustive sweep over the declared-portable catalog x values x address offsets 0..7, image compared byte-for-byte with a layout-free concatenation encoder",
         "Every declared-portable shape: ALIGN 1, no padding byte in the reference mask, image identical to the layout-free serialisation, same content when mapped at every address offset. One host only: platform independence is established as 'bytes are a platform-independent function of content'."),
 "C20": ("exploration", "emplace", "6.C20", "exhaustive sweep over default-capable shapes x every buffer length x offsets x four prior fills, compared with the reference default value and Default::default()",
         "default_in_place on every length and four prior contents: reads the reference default (zero leaves, empty containers, #[default] variant), validates, size() is the extent of that state, image independent of prior contents under the padding mask, equal to Default::default() for sized types."),
 "C05": ("model_checking", "emplace+hist", "6.C05", "explicit-state BFS (stateright) over byte images reachable by in-place operations + exhaustive construction sweep; size() compared with the reference extent in every state",
         "At every constructed value (emplace sweep) and every state of the history graphs (push/pop/truncate/assign/nested edits from every reachable state): size() equals the reference extent, is within the buffer, and the first size() bytes re-map to the same content and size."),
 "C07": ("model_checking", "io_explore+io_loom", "6.C07", "stateless choice-sequence DFS with iterative deviation bounding over every write-chunk and read-chunk size on the real blocking Sender/Receiver (unbounded for short streams), plus loom exploration of the two real threads over a Mutex+Condvar ring",
         "Every composition of the stream into write chunks and into read chunks (all of them for short streams, all with <= 2/3 deviations from 'as much as fits' beyond), for every message sequence up to length 2/3 over 3-4 values of 12 message types and several buffer capacities: sink bytes equal the images, the receiver yields exactly the sent sequence then Closed, never panics. loom explores real thread interleavings (preemption bound 2/3) to confirm the factorisation into independent write and read scripts."),
 "C08": ("model_checking", "io_explore", "6.C08", "stateless choice-sequence DFS with iterative deviation bounding over pipe chunk sizes, spurious Pending results, flush Pending and the poll order of the two tasks, on the real async Sender/Receiver under an owned single-threaded executor with strict wake discipline",
         "Two real tasks over a bounded in-memory pipe (capacities 1,2,3,S,2S): every placement of Pending, every chunking, every poll order within the deviation bound (unbounded for tiny streams): same delivery oracle as C07; every future completes (no deadlock under strict wake discipline, no poll horizon overrun); when send completes the pipe has accepted exactly the message bytes and has been flushed."),
 "C09": ("fault_enumeration", "io_explore", "6.C09", "exhaustive enumeration of fault scripts (each pipe call may fail with each error kind, return 0 / EOF, once or forever) combined with chunk deviations, on the real blocking and async senders and receivers",
         "Every placement of up to 2/3 faults at every pipe call index (including the first call of every message and mid-message), transient and persistent, combined with chunk deviations: the pending operation returns an error within the call horizon (a loop that never returns is made observable by the scripted pipe), the sink holds whole messages plus at most one partial with nothing after it, a receive retried after a transient error yields the remaining messages exactly once each."),
 "C10": ("model_checking", "io_explore", "6.C10", "stateless choice-sequence DFS over every chunking of enumerated hostile byte streams (raw strings, mutated/truncated valid streams, oversized length fields) fed to the real blocking and async receivers; expected verdict from the reference decoder",
         "Every enumerated hostile stream under every chunking (all for short streams, <= 2 deviations beyond): each recv terminates with a message, Parse, a read error (incl. OutOfMemory) or Closed; no panic, no spin; every message handed out lies inside the bytes received and decodes to the reference value; dropping the guard never consumes more than was received; complete-but-malformed content gives Parse."),
 "C11": ("model_checking", "hist", "6.C11", "explicit-state BFS (stateright) on the real FlatVec/FlatString; every transition is one real call compared with a Vec/String model with fixed capacity",
         "For every (element, length type) pair of the catalog and every single buffer length in range: the complete graph of states reachable with the operation alphabet (push, pop, push_slice, extend, truncate, clear, remove, swap_remove, resize, element writes, reverse / push(char), push_str, clear, uppercase) is explored to closure; results, len, capacity, contents, size(), validity and re-mapping are compared with the model after every step; one configuration has capacity above the length type's maximum."),
 "C12": ("model_checking", "hist", "6.C12", "explicit-state BFS (stateright) on the real FlexVec; every transition is one real call compared with a Vec<Value> model whose geometry is re-derived from the image by the reference decoder",
         "For every FlexVec instantiation of the catalog and every single buffer length in range, from default, emplaced and zero-terminated initial images: push (fitting, too large, failing emplacer, default), pop, truncate(k), clear and edits of individual items from every reachable state; length, items in order, validity, re-mapping after every step."),
 "C13": ("model_checking", "hist", "6.C13", "same state graphs as C11/C12; the oracle on every transition whose call returned an error: observable state, size(), bytes inside the old extent unchanged; continuation conformance from the post-state",
         "Every refused push / push_slice / push_str / FlexVec push in every reachable state (exactly full, payload does not fit, length type exhausted, offset not representable, failing nested emplacer): the container reads the same, and since the search continues from the post-state with the model unchanged, later operations are checked to behave as if the call never happened. Refusals are counted per cause in the evidence."),
 "C14": ("model_checking", "emplace+hist", "6.C14", "write-footprint monitor on every transition of the history graphs and every emplacement: canaries around the slice + byte diff against the ranges the reference model allows the operation to touch",
         "Every constructing and mutating operation including failing ones: bytes outside the slice (canaries, guard page) and, inside it, bytes outside the part being changed (computed from the reference layout of the pre-state) keep their contents."),
 "C18": ("model_checking", "hist", "6.C18", "explicit-state BFS (stateright) with assign_in_place of every enumerated fitting and non-fitting value (all variants, three emplacer kinds) at every unsized node, interleaved with container operations",
         "For every unsized catalog shape and buffer length: after a failed assign the bytes must validate, the value can be read, measured and assigned again (the search continues from it), and it must be unchanged when the refusal is for lack of room. Two genuine, unrepaired defects are listed as known findings F10/F11."),
 "C16": ("exploration", "portable", "6.C16", "exhaustive enumeration of all 65536 values of the 16-bit portable types (unary facts) and of value pairs (binary facts); boundary lattice for 32/64-bit types and floats; differential against the native type including 'both panic'",
         "All 12 Int and 4 Float aliases and Bool: ALIGN 1, SIZE, stored bytes = to_le/be_bytes, lossless round trip incl. NaN payloads, ordering, + - * / % and assign forms, neg/abs/signum/abs_sub, zero/one/min/max, to/from u64/i64/usize, NumCast, from_str_radix, Display/Debug, equality = byte equality; Bool validates exactly 0 and 1. 32/64-bit value spaces are covered on a boundary lattice only (all macros share one body that is checked exhaustively at 16 bits). Payloads of NaNs *computed* by arithmetic are not compared (unspecified in Rust)."),
 "C19": ("exploration", "decode", "6.C19", "exhaustive single-corruption enumeration of every constrained byte of every enumerated image, position judged against the reference's offending range",
         "Every constrained byte (Bool, tag, UTF-8) at every nesting position the catalog offers, each corrupted every listed way: the error must be a content error positioned inside the offending range."),
}

checks = []
for pid, (cat, engine, ref, tech, text) in sorted(CHECKS.items()):
    checks.append({
        "property_id": pid,
        "quick_cmd": "./check %s --tier quick" % pid,
        "thorough_cmd": "./check %s --tier thorough" % pid,
        "evidence_file": "/verif/evidence/%s.json" % pid,
        "replay_cmd_template": "./check --replay {path}",
        "engine": engine,
        "level_claimed": {"category": cat, "text": text, "design_ref": "DESIGN.md §" + ref},
        "level_note": MC_NOTE if cat in ("model_checking", "fault_enumeration") else SWEEP_NOTE,
        "technique": tech,
    })
na = [{"property_id": p["id"], "reason": "check not built yet (work in progress; see DESIGN.md)"} for p in props if p["id"] not in CHECKS]
m = {
 "version": 1,
 "setup_cmd": "./setup.sh",
 "hooks": {"guard": "flatty_verif", "enable": "no source hooks are needed: every oracle observes public API results, harness-owned memory or the harness's own pipe", "baseline_off_cmd": "cd /repo && cargo test --workspace --no-fail-fast --offline", "source_commits": [], "add_only": True},
 "engines": [
  {"name": "decode", "path": "crates/engines/src/bin/decode.rs", "serves_properties": ["C01", "C02", "C06", "C19"], "kind_free_text": "E1 exhaustive product sweep over byte strings on the real validators vs reference decoder"},
  {"name": "emplace", "path": "crates/engines/src/bin/emplace.rs", "serves_properties": ["C03", "C15", "C17", "C20"], "kind_free_text": "E1 exhaustive product sweep over emplacements"},
  {"name": "hist", "path": "crates/engines/src/bin/hist.rs", "serves_properties": ["C05", "C11", "C12", "C13", "C14", "C18"], "kind_free_text": "E2 explicit-state search (stateright BFS) over byte images, every transition a real library call vs refmodel::model"},
  {"name": "portable", "path": "crates/engines/src/bin/portable.rs", "serves_properties": ["C16"], "kind_free_text": "E1 exhaustive sweep over portable scalar values and pairs vs native arithmetic"},
  {"name": "io_explore", "path": "crates/ioeng/src/bin/io_explore.rs", "serves_properties": ["C07", "C08", "C09", "C10"], "kind_free_text": "E3 stateless choice-sequence DFS with deviation bounding over pipe answers / Pending / faults / poll order, real flatty-io code"},
  {"name": "io_loom", "path": "crates/ioeng/src/bin/io_loom.rs", "serves_properties": ["C07"], "kind_free_text": "E4 loom exploration of the real blocking sender/receiver threads"},
  {"name": "probes", "path": "crates/probes/src/main.rs", "serves_properties": ["C01"], "kind_free_text": "dedicated enumerated probes compiled at opt-level 0 (generic flatty code instantiated unoptimised): zero-sized elements with an announced length of 2^32-1 / 2^64-1 under a wall limit, u128 length types"},
  {"name": "layout", "path": "crates/engines/src/bin/layout.rs", "serves_properties": ["C04"], "kind_free_text": "E1 exhaustive product sweep over shapes x lengths x values"},
 ],
 "checks": checks,
 "not_applicable": na,
 "notes": "Driver: ./check <ID> --tier quick|thorough; replays: ./check --replay <file>; known findings: known_findings.json",
}
json.dump(m, open(os.path.join(ROOT, "MANIFEST.json"), "w"), indent=1)
print("manifest: %d checks, %d not yet" % (len(checks), len(na)))
